import Minimq.Proofs.QuotaEq
import Minimq.Theorems.C16Setting
/-
C06 / C16 — the send-quota books balance.

`C06_window_partial` (the lifted invariant `QuotaP`) says that `send_quota` plus the number of QoS 1/2
exchanges in flight (`inflight_publishes`: retained PUBLISH packets plus release entries) is AT MOST
`max_send_quota`. Here: on a live connection it is EQUAL — no slot of the broker's Receive Maximum is ever
lost (a lost slot would be a leak that blocks publishing for ever once enough have leaked) and none is
counted twice (which would let the window be exceeded). The bounded-quiescence theorem assumed this
(`quotaEq` in `Setting`, `Setting'`, `SettingQ`); it no longer has to.

Hypotheses, and why each is needed:
* `live`: while the handle is dead the books can be off — a CONNACK that announced a fresh session, reset
  the queues and was then rejected for its properties (F19) leaves the old `send_quota` beside empty queues
  (`C06_balance_needs_live`, confirmed on the crate: `q=7/8` with nothing in flight). The next accepted CONNACK
  recomputes `send_quota`, so this does no harm.
* `deficit = false`: finding F5c — a CONNACK with session present whose Receive Maximum is below the number of
  publishes to replay sets `send_quota = 0` by saturating subtraction (`C06_balance_needs_no_deficit`).
Nothing else is needed: no assumption on the broker's packets (failure codes, unknown identifiers, duplicates),
on I/O decisions, cancellations, drops, `setpid`, QoS downgrade, or publishes that fail half-way.

The one step that unbalances the books on a live handle — a PUBREC with a success code whose PUBREL is over
the broker's Maximum Packet Size (below 5): the PUBLISH is removed, no release entry is made, nothing is
returned — fails with `Resource.PacketTooLarge`, and `process_received_packet` ends the connection before it
returns. The lifting used here (`Proofs/LiftHandle.lean`) therefore looks at `handle_packet` together with
the `handle_disconnect` that follows a fatal result.
-/
namespace Minimq
open Gen World Fuel Outbound Quiesce

/-- **The books balance.** After any program — API calls, I/O decisions, inbound bytes of any kind, ticks,
cancellations, drops, reconnects —, if the connection handle is live and the last accepted CONNACK did not
announce a Receive Maximum below the number of publishes to replay (`deficit` clear; else F5c), then
`send_quota + inflight_publishes = max_send_quota`: every slot of the window is either free or taken by
exactly one unresolved QoS 1/2 exchange. -/
theorem C06_quota_books_balance (cfg : Cfg) (ds : List Directive) :
    let w := ds.foldl World.execDirective { sess := Session.new cfg }
    w.live = true → w.sess.rt.deficit = false →
    w.sess.rt.sendQuota + w.sess.data.outbound.inflightPublishes = w.sess.rt.maxSendQuota :=
  fun hl hd => (bal_of_live cfg ds hl).2 hd

/-- The same for a world that a program produced (`Produced`), together with the bound on the maximum: on a
live handle `max_send_quota ≤ 8`, whatever `deficit` says. -/
theorem C06_quota_books_balance_produced (w : World) (hprog : Produced w) (hl : w.live = true) :
    w.sess.rt.maxSendQuota ≤ maxInflight ∧
    (w.sess.rt.deficit = false →
      w.sess.rt.sendQuota + w.sess.data.outbound.inflightPublishes = w.sess.rt.maxSendQuota) :=
  hprog.bal hl

/-- **No slot leaks**: whenever the session is quiescent (nothing retained, nothing to release, no
acknowledgement owed) on a live handle with `deficit` clear, the whole window is available again. -/
theorem C06_idle_quota_is_full (cfg : Cfg) (ds : List Directive) :
    let w := ds.foldl World.execDirective { sess := Session.new cfg }
    w.live = true → w.sess.rt.deficit = false → w.sess.data.outbound.isQuiescent = true →
    w.sess.rt.sendQuota = w.sess.rt.maxSendQuota :=
  fun hl hd hq => quota_restored _ (C06_quota_books_balance cfg ds hl hd) hq

/-- **A publish is refused for lack of quota only when the window is really full**: live, `deficit` clear and
`send_quota = 0` mean that `max_send_quota` exchanges are unresolved. -/
theorem C06_quota_zero_iff_window_full (cfg : Cfg) (ds : List Directive) :
    let w := ds.foldl World.execDirective { sess := Session.new cfg }
    w.live = true → w.sess.rt.deficit = false →
    (w.sess.rt.sendQuota = 0 ↔ w.sess.data.outbound.inflightPublishes = w.sess.rt.maxSendQuota) := by
  intro w hl hd
  have hb : w.sess.rt.sendQuota + w.sess.data.outbound.inflightPublishes = w.sess.rt.maxSendQuota :=
    C06_quota_books_balance cfg ds hl hd
  constructor <;> intro h <;> omega

/-- One step, for the record: what every inbound packet does to the books — they stay balanced, or
`handle_packet` fails with one of the three errors after which `process_received_packet` ends the connection
(`Disconnected`, `Peer.InvalidPacket`, `Resource.PacketTooLarge`). -/
theorem C06_inbound_keeps_books (d : SessionData) (r : Runtime) (p : Recv) (ha : d.outbound.ArenaInv)
    (hm : r.maxSendQuota ≤ maxInflight)
    (hb : r.deficit = false → r.sendQuota + d.outbound.inflightPublishes = r.maxSendQuota) :
    ((handlePacket d r p).2.1.deficit = false →
      (handlePacket d r p).2.1.sendQuota + (handlePacket d r p).1.outbound.inflightPublishes =
        (handlePacket d r p).2.1.maxSendQuota) ∨
    HandleFatal (handlePacket d r p).2.2 := by
  rcases handlePacket_bal d r p ha ⟨hm, hb⟩ with h | h
  · exact Or.inl h.2
  · exact Or.inr h

/-! ### Bounded quiescence without the hypothesis `quotaEq` -/

/-- **Bounded quiescence, `quotaEq` removed.** Let a program have produced `w`, in the setting `Setting'' w`:
live, no I/O decision left over, no keep-alive traffic, nothing over the broker's size limit (F14), `deficit`
clear (F5c), retained packets of the kinds the broker answers, six bytes of receive buffer, reader at a packet
boundary, broker up to date — the balance of the quota books is no longer asked for, it follows
(`C06_quota_books_balance`). Then there is `n ≤ mu ≤ 1 + 2·|retained| + |release|` such that after `n` rounds
the session is quiescent and stays so, every handle that was pending reports `complete`, the send quota is
back at its maximum, and the world is one a program produced. -/
theorem C16Q_bounded_quiescence'' (w : World) (hprog : Produced w) (hs : Setting'' w) :
    ∃ n, n ≤ mu w.sess.data.outbound ∧
      n ≤ 1 + 2 * w.sess.data.outbound.retained.length + w.sess.data.outbound.release.length ∧
      (rounds n w).sess.data.outbound.isQuiescent = true ∧
      (∀ m, (rounds m (rounds n w)).sess.data.outbound.isQuiescent = true) ∧
      (∀ op, w.sess.data.status op = .pending → (rounds n w).sess.data.status op = .complete) ∧
      (rounds n w).sess.rt.sendQuota = (rounds n w).sess.rt.maxSendQuota ∧
      Produced (rounds n w) ∧ Ready (rounds n w) :=
  C16Q_bounded_quiescence' w hprog (setting'_of w hprog hs)

/-- **Bounded quiescence for programs with QoS 0, 1, 2, `quotaEq` removed**: from `SettingQ' w` — live; no
I/O decision left over; no keep-alive traffic; nothing over the broker's size limit (F14); `deficit` clear
(F5c); six bytes of receive buffer, reader at a packet boundary; broker up to date. -/
theorem C16Q_bounded_quiescence_qos' (w : World) (hprog : ProducedQ w) (hs : SettingQ' w) :
    ∃ n, n ≤ mu w.sess.data.outbound ∧
      n ≤ 1 + 2 * w.sess.data.outbound.retained.length + w.sess.data.outbound.release.length ∧
      (rounds n w).sess.data.outbound.isQuiescent = true ∧
      (∀ m, (rounds m (rounds n w)).sess.data.outbound.isQuiescent = true) ∧
      (∀ op, w.sess.data.status op = .pending → (rounds n w).sess.data.status op = .complete) ∧
      (rounds n w).sess.rt.sendQuota = (rounds n w).sess.rt.maxSendQuota ∧
      Produced (rounds n w) ∧ Ready (rounds n w) :=
  C16Q_bounded_quiescence_qos w hprog (settingQ_of w hprog.produced hs)

/-! ### Non-vacuity -/

/-- The first concrete world of `Theorems/C16Quiesce.lean` (a QoS 2 exchange in its PUBREL phase, a QoS 1
publish sent, a second one half-written): live, `deficit` clear, three exchanges in flight, five slots free,
window 8. -/
example :
    C16Q_w.live = true ∧ C16Q_w.sess.rt.deficit = false ∧ C16Q_w.sess.rt.sendQuota = 5 ∧
    C16Q_w.sess.data.outbound.inflightPublishes = 3 ∧ C16Q_w.sess.rt.maxSendQuota = 8 := by decide +kernel

/-- …and the theorem applies to it. -/
example : C16Q_w.sess.rt.sendQuota + C16Q_w.sess.data.outbound.inflightPublishes = C16Q_w.sess.rt.maxSendQuota := by
  have hl : C16Q_w.live = true := by decide +kernel
  have hd : C16Q_w.sess.rt.deficit = false := by decide +kernel
  unfold C16Q_w at hl hd ⊢
  exact C06_quota_books_balance C16Q_cfg C16Q_prog hl hd

/-- The second one (everything re-armed after a reconnect with session present: one release entry, a QoS 1 and
a QoS 2 PUBLISH and a SUBSCRIBE retained): the accepted CONNACK counted the three exchanges to replay. -/
example :
    C16Q_w2.live = true ∧ C16Q_w2.sess.rt.deficit = false ∧ C16Q_w2.sess.rt.sendQuota = 5 ∧
    C16Q_w2.sess.data.outbound.inflightPublishes = 3 ∧ C16Q_w2.sess.data.outbound.retained.length = 3 ∧
    C16Q_w2.sess.rt.maxSendQuota = 8 := by decide +kernel

/-- A PUBREC with a failure code (0x80) for a QoS 2 publish: the exchange is over, the slot is returned at
once; PUBACK for an identifier that is not in flight (9): nothing happens. Window 2 (Receive Maximum 2). -/
def C06B_prog : List Directive :=
  [.connect, .rx [0x20, 0x06, 0x00, 0x00, 0x03, 0x21, 0x00, 0x02], .go,
   C16Q_pub 2 0x74 0x70, .go, C16Q_pub 1 0x75 0x71, .go,
   .rx [0x50, 0x03, 0x00, 0x01, 0x80, 0x40, 0x02, 0x00, 0x09], .poll, .go, .poll, .go]

example :
    let w := C06B_prog.foldl World.execDirective { sess := Session.new C16Q_cfg }
    w.live = true ∧ w.sess.rt.deficit = false ∧ w.out.head? = some "ret poll ok none @0" ∧
    w.sess.rt.sendQuota = 1 ∧ w.sess.data.outbound.inflightPublishes = 1 ∧ w.sess.rt.maxSendQuota = 2 := by
  decide +kernel

/-- The reduced settings hold of the first concrete world, and the reduced theorems apply to it. -/
example : Setting'' C16Q_w := C16Q_w_setting.reduce.dropQuota
example : SettingQ' C16Q_w := C16Q_w_setting.reduce.dropKinds.dropQuota

example : ∃ n, n ≤ 4 ∧ (rounds n C16Q_w).sess.data.outbound.isQuiescent = true ∧
    (rounds n C16Q_w).sess.rt.sendQuota = (rounds n C16Q_w).sess.rt.maxSendQuota := by
  obtain ⟨n, hn, _, hq, _, _, hquota, _⟩ :=
    C16Q_bounded_quiescence_qos' C16Q_w C16Q_w_producedQ C16Q_w_setting.reduce.dropKinds.dropQuota
  exact ⟨n, by have : mu C16Q_w.sess.data.outbound = 4 := by decide +kernel
               omega, hq, hquota⟩

/-! ### Both hypotheses are needed -/

/-- Connected; a QoS 1 publish sent (quota 7 of 8); the connection is dropped; `connect` again, and the broker
answers CONNACK with session present = 0 and Receive Maximum 0 — a protocol error: the client has already
reset the session for the fresh broker session when it rejects the packet (F19). -/
def C06B_progDead : List Directive :=
  [.connect, .rx [0x20, 0x03, 0x00, 0x00, 0x00], .go, C16Q_pub 1 0x74 0x70, .go,
   .drop, .connect, .rx [0x20, 0x06, 0x00, 0x00, 0x03, 0x21, 0x00, 0x00], .go]

/-- **`live` is needed.** The handle is dead, `deficit` is clear, nothing is in flight, and `send_quota` is 7
of 8. (The harness shows the same on the crate: `s live=- … ret=- rel=- … q=7/8`.) The next accepted CONNACK
sets it right: 8 of 8. -/
theorem C06_balance_needs_live :
    let w := C06B_progDead.foldl World.execDirective { sess := Session.new C16Q_cfg }
    let w' := [Directive.connect, .rx [0x20, 0x03, 0x00, 0x00, 0x00], .go].foldl World.execDirective w
    w.live = false ∧ w.sess.rt.deficit = false ∧ w.sess.data.halfReset = true ∧
    w.sess.rt.sendQuota + w.sess.data.outbound.inflightPublishes ≠ w.sess.rt.maxSendQuota ∧
    w.sess.rt.sendQuota = 7 ∧ w.sess.data.outbound.inflightPublishes = 0 ∧ w.sess.rt.maxSendQuota = 8 ∧
    w'.live = true ∧ w'.sess.rt.sendQuota = 8 ∧ w'.sess.rt.maxSendQuota = 8 := by
  decide +kernel

/-- **`deficit = false` is needed** (F5c): three QoS 1 publishes unacknowledged, reconnect with session
present and Receive Maximum 2 (`C06Wire_progF5c` without the final `poll`): live, `send_quota` 0, three in
flight, window 2. -/
theorem C06_balance_needs_no_deficit :
    let w := [Directive.connect, .rx [0x20, 0x03, 0x00, 0x00, 0x00], .go,
      C16Q_pub 1 0x74 0x70, .go, C16Q_pub 1 0x75 0x71, .go, C16Q_pub 1 0x76 0x72, .go,
      .drop, .connect, .rx [0x20, 0x06, 0x01, 0x00, 0x03, 0x21, 0x00, 0x02], .go].foldl
        World.execDirective { sess := Session.new C16Q_cfg }
    w.live = true ∧ w.sess.rt.deficit = true ∧
    w.sess.rt.sendQuota + w.sess.data.outbound.inflightPublishes ≠ w.sess.rt.maxSendQuota ∧
    w.sess.rt.sendQuota = 0 ∧ w.sess.data.outbound.inflightPublishes = 3 ∧ w.sess.rt.maxSendQuota = 2 := by
  decide +kernel

/-- The step that unbalances the books, in isolation: Maximum Packet Size 4, a retained QoS 2 PUBLISH
(identifier 1), quota 7 of 8; PUBREC(1, Success) removes the PUBLISH, makes no release entry, returns nothing,
and fails with `Resource.PacketTooLarge` — which ends the connection. -/
example :
    let o : Outbound := { (Outbound.new 32) with
      buf := [0x34, 0, 0] ++ List.replicate 29 0, used := 3, nextSer := 1,
      retained := [{ id := 1, offset := 0, len := 3, state := .sent, ser := 0 }] }
    let r : Runtime := { keepaliveMs := 0, configuredKeepaliveMs := 0, sendQuota := 7, maxSendQuota := 8,
                         maximumPacketSize := some 4 }
    let res := handlePacket { outbound := o } r (.pubRec 1 { code := none, props := none })
    r.sendQuota + o.inflightPublishes = r.maxSendQuota ∧
    (match res.2.2 with | .error .packetTooLarge => true | _ => false) = true ∧ res.2.1.sendQuota = 7 ∧ res.1.outbound.inflightPublishes = 0 := by
  decide

end Minimq
