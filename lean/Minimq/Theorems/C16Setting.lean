import Minimq.Proofs.QuiesceSetting
import Minimq.Theorems.C16Quiesce
/-
C16, liveness half — the hypotheses of `C16Q_bounded_quiescence` that follow from reachability.

`Setting w` (`Proofs/QuiesceFinal.lean`) lists sixteen hypotheses; its comment says that five of them are
"true of every world a program produces, but not among the invariants lifted so far". Here they are lifted,
as far as they are true:

* `clean` (no `Sent` entry in the control queue), `ctlCap` (at most `MAX_PENDING_CONTROL` control entries),
  `small` (identifiers in use below 65536): invariants of every world a program produces —
  `C16Q_inv_clean`, `C16Q_inv_ctlCap`, `C16Q_inv_small`.
* `maxq` (maximum send quota at most 8): holds of every produced world whose handle is live —
  `C16Q_inv_maxq`; no assumption on the ghost mark `tornNets` is needed (`maxq_of_untorn` needed one): the
  handle becomes live only when a CONNACK is accepted.
* `kinds` (retained packets are QoS 1/2 PUBLISH, SUBSCRIBE, UNSUBSCRIBE): **not** an invariant of every
  produced world. `PubReq.qos` is a natural number in the model, and `publish` with `qos = 3` retains a
  packet with first byte `0x36` that no acknowledgement matches: `C16Q_kinds_needed` is a produced world that
  satisfies every other hypothesis and never becomes quiescent. This is an artefact of the model, not a defect
  of the crate — the Rust `QoS` enum has the values 0, 1, 2 only, and the directive parser rejects anything
  else. For programs that publish with QoS 0, 1, 2 only it is an invariant: `C16Q_inv_kinds`.

`C16Q_bounded_quiescence'` is the theorem from `Produced w` and the twelve remaining hypotheses `Setting' w`;
`C16Q_bounded_quiescence_qos` is the theorem for QoS 0/1/2 programs from the eleven hypotheses `SettingQ w`.
`cap` (six bytes of receive buffer) depends on the configuration and stays.
-/
namespace Minimq
open Gen World Fuel Outbound Quiesce

/-- **No sent acknowledgement stays queued.** In every world a program produced, no entry of the control
queue is in state `Sent`: `flush_control` removes the entry it marks, `set_written` leaves an entry in `Write`
or `Flush`, `arm_replay` puts every entry back to `Write(0)`. -/
theorem C16Q_inv_clean (w : World) (hprog : Produced w) : ∀ e ∈ w.sess.data.outbound.control, e.state ≠ .sent :=
  hprog.ctl.clean

/-- **The control queue stays within its capacity.** In every world a program produced it holds at most
`MAX_PENDING_CONTROL` (8) entries: only `queue_control` lengthens it, and it refuses when the queue is full. -/
theorem C16Q_inv_ctlCap (w : World) (hprog : Produced w) : w.sess.data.outbound.control.length ≤ MAX_PENDING_CONTROL :=
  hprog.ctl.cap

/-- **Identifiers in use fit two bytes.** In every world a program produced, the identifier of every retained
packet and of every release entry is below 65536: `next_packet_id` hands out 1 … 65535 (the counter stays in
that range, also under the `verif_set_next_packet_id` hook), and a release entry takes the identifier of the
retained PUBLISH whose PUBREC created it. -/
theorem C16Q_inv_small (w : World) (hprog : Produced w) : ∀ id ∈ w.sess.data.outbound.usedIds, id < 65536 :=
  hprog.small

/-- **On a live connection the maximum send quota is at most 8.** In every world a program produced whose
handle is live, a CONNACK has been accepted — the handle becomes live in no other way —, and an accepted
CONNACK sets the maximum send quota to `min(Receive Maximum, 8)`. No assumption about torn transports. -/
theorem C16Q_inv_maxq (w : World) (hprog : Produced w) (hl : w.live = true) : w.sess.rt.maxSendQuota ≤ maxInflight :=
  hprog.maxq_of_live hl

/-- **Programs with QoS 0, 1, 2 retain only packets the broker answers.** In every world produced by a
program whose `publish` directives ask for QoS 0, 1 or 2, every retained packet is a QoS 1 PUBLISH, a QoS 2
PUBLISH, a SUBSCRIBE or an UNSUBSCRIBE (first byte `0x32 … 0x35` possibly with the DUP bit, `0x82`, `0xA2`). -/
theorem C16Q_inv_kinds (w : World) (hprog : ProducedQ w) : KnownKinds w.sess.data.outbound :=
  hprog.kinds

/-- **Bounded quiescence, from the reduced setting.** Let a program have produced `w`, in the setting
`Setting' w` (live, nothing over the size limit, `deficit` clear, quota books balanced, retained packets of the
kinds the broker answers, broker up to date, …; the facts about the control queue, the identifiers and the
maximum send quota are no longer asked for). Then there is `n ≤ mu ≤ 1 + 2·|retained| + |release|` such that
after `n` rounds the session is quiescent and stays so, every handle that was pending reports `complete`, the
send quota is back at its maximum, and the world is one a program produced. -/
theorem C16Q_bounded_quiescence' (w : World) (hprog : Produced w) (hs : Setting' w) :
    ∃ n, n ≤ mu w.sess.data.outbound ∧
      n ≤ 1 + 2 * w.sess.data.outbound.retained.length + w.sess.data.outbound.release.length ∧
      (rounds n w).sess.data.outbound.isQuiescent = true ∧
      (∀ m, (rounds m (rounds n w)).sess.data.outbound.isQuiescent = true) ∧
      (∀ op, w.sess.data.status op = .pending → (rounds n w).sess.data.status op = .complete) ∧
      (rounds n w).sess.rt.sendQuota = (rounds n w).sess.rt.maxSendQuota ∧
      Produced (rounds n w) ∧ Ready (rounds n w) :=
  C16Q_bounded_quiescence w hprog (setting_of w hprog hs)

/-- **Bounded quiescence for programs with QoS 0, 1, 2.** The same conclusion for a world produced by a
program whose `publish` directives ask for QoS 0, 1 or 2 — every program the directive parser accepts, every
use of the Rust API —, from `SettingQ w`: live; no keep-alive traffic; nothing over the broker's size limit
(F14); `deficit` clear (F5c); quota books balanced; six bytes of receive buffer, reader at a packet boundary;
broker up to date. -/
theorem C16Q_bounded_quiescence_qos (w : World) (hprog : ProducedQ w) (hs : SettingQ w) :
    ∃ n, n ≤ mu w.sess.data.outbound ∧
      n ≤ 1 + 2 * w.sess.data.outbound.retained.length + w.sess.data.outbound.release.length ∧
      (rounds n w).sess.data.outbound.isQuiescent = true ∧
      (∀ m, (rounds m (rounds n w)).sess.data.outbound.isQuiescent = true) ∧
      (∀ op, w.sess.data.status op = .pending → (rounds n w).sess.data.status op = .complete) ∧
      (rounds n w).sess.rt.sendQuota = (rounds n w).sess.rt.maxSendQuota ∧
      Produced (rounds n w) ∧ Ready (rounds n w) :=
  C16Q_bounded_quiescence w hprog.produced (setting_of_qos w hprog hs)

/-- **The reconnect clause, from fewer hypotheses.** As `C16Q_reconnect_then_quiescence` — `connect()`, a
conformant CONNACK with session present, enough healthy decisions, call the result `W` —, asking of `W` only
what reachability does not give: no PINGREQ queued, nothing over the new CONNACK's size limit (F14), `deficit`
clear (F5c), retained packets of the kinds the broker answers; and six bytes of receive buffer. -/
theorem C16Q_reconnect_then_quiescence' (w : World) (hprog : Produced w) (hslot : w.slot = none)
    (off : Nat) (pkt : Bytes)
    (he : encodeConnect w.sess.data.outbound.scratchLen w.sess.beginConnect.connectPacket = .ok (off, pkt))
    (block : Bytes) (hblk : connackBlockOk block)
    (hwf : (Spec.ServerPacket.connAck true 0 block).wf = true)
    (hfit : (Spec.encodeServer (.connAck true 0 block)).length ≤ w.sess.reader.cap)
    (ks : List Nat) (hks : ∀ k ∈ ks, 1 ≤ k ∧ k ≤ 250)
    (hlen : pkt.length + 1 + (Spec.encodeServer (.connAck true 0 block)).length ≤ ks.length) :
    let W := runDs ks ((w.execDirective .connect).execDirective (.rx (Spec.encodeServer (.connAck true 0 block))))
    (∀ e ∈ W.sess.data.outbound.control, e.action.typ ≠ MT_PingReq) →
    Quiesce.Fits W.sess → W.sess.rt.deficit = false →
    KnownKinds W.sess.data.outbound → 6 ≤ w.sess.reader.cap →
    W.live = true ∧ W.conn = some { live := true, resumed := true } ∧
    ∃ n, n ≤ mu W.sess.data.outbound ∧ (rounds n W).sess.data.outbound.isQuiescent = true ∧
      (∀ m, (rounds m (rounds n W)).sess.data.outbound.isQuiescent = true) ∧
      (∀ op, W.sess.data.status op = .pending → (rounds n W).sess.data.status op = .complete) := by
  intro W h2 h4 h6 h7 h8
  have hW : Produced W := ((hprog.exec _).exec _).run _
  exact C16Q_reconnect_then_quiescence w hprog hslot off pkt he block hblk hwf hfit ks hks hlen
    hW.ctl.clean h2 hW.ctl.cap h4 hW.small h6 h7 h8

/-- **The reconnect clause for programs with QoS 0, 1, 2**: `kinds` is no longer asked for either. -/
theorem C16Q_reconnect_then_quiescence_qos (w : World) (hprog : ProducedQ w) (hslot : w.slot = none)
    (off : Nat) (pkt : Bytes)
    (he : encodeConnect w.sess.data.outbound.scratchLen w.sess.beginConnect.connectPacket = .ok (off, pkt))
    (block : Bytes) (hblk : connackBlockOk block)
    (hwf : (Spec.ServerPacket.connAck true 0 block).wf = true)
    (hfit : (Spec.encodeServer (.connAck true 0 block)).length ≤ w.sess.reader.cap)
    (ks : List Nat) (hks : ∀ k ∈ ks, 1 ≤ k ∧ k ≤ 250)
    (hlen : pkt.length + 1 + (Spec.encodeServer (.connAck true 0 block)).length ≤ ks.length) :
    let W := runDs ks ((w.execDirective .connect).execDirective (.rx (Spec.encodeServer (.connAck true 0 block))))
    (∀ e ∈ W.sess.data.outbound.control, e.action.typ ≠ MT_PingReq) →
    Quiesce.Fits W.sess → W.sess.rt.deficit = false → 6 ≤ w.sess.reader.cap →
    W.live = true ∧ W.conn = some { live := true, resumed := true } ∧
    ∃ n, n ≤ mu W.sess.data.outbound ∧ (rounds n W).sess.data.outbound.isQuiescent = true ∧
      (∀ m, (rounds m (rounds n W)).sess.data.outbound.isQuiescent = true) ∧
      (∀ op, W.sess.data.status op = .pending → (rounds n W).sess.data.status op = .complete) := by
  intro W h2 h4 h6 h8
  exact C16Q_reconnect_then_quiescence' w hprog.produced hslot off pkt he block hblk hwf hfit ks hks hlen
    h2 h4 h6 (hprog.reconnect _ ks).kinds h8

/-! ### Non-vacuity -/

/-- The reduced setting holds of the first concrete world of `Theorems/C16Quiesce.lean`. -/
example : Setting' C16Q_w := C16Q_w_setting.reduce

/-- Its program publishes with QoS 2, 1, 1. -/
theorem C16Q_w_producedQ : ProducedQ C16Q_w := by
  refine ⟨C16Q_cfg, C16Q_prog, ?_, rfl⟩
  intro r hr
  simp only [C16Q_prog, C16Q_pub, List.mem_cons, Directive.publish.injEq, reduceCtorEq, false_or,
    List.not_mem_nil, or_false] at hr
  rcases hr with rfl | rfl | rfl <;> decide

example : SettingQ C16Q_w := C16Q_w_setting.reduce.dropKinds

/-- …and the theorems apply to it: quiescent within `mu = 4` rounds. -/
example : ∃ n, n ≤ 4 ∧ (rounds n C16Q_w).sess.data.outbound.isQuiescent = true := by
  obtain ⟨n, hn, _, hq, _⟩ := C16Q_bounded_quiescence_qos C16Q_w C16Q_w_producedQ C16Q_w_setting.reduce.dropKinds
  exact ⟨n, by have : mu C16Q_w.sess.data.outbound = 4 := by decide +kernel
               omega, hq⟩

/-! ### `kinds` is not an invariant of every program -/

/-- Connected; then `publish` with `qos = 3`, written and flushed. -/
def C16Q_badProg : List Directive :=
  [.connect, .rx [0x20, 0x03, 0x00, 0x00, 0x00], .go, C16Q_pub 3 0x74 0x70, .go]

def C16Q_bad : World := C16Q_badProg.foldl World.execDirective { sess := Session.new C16Q_cfg }

theorem C16Q_bad_produced : Produced C16Q_bad := ⟨C16Q_cfg, C16Q_badProg, rfl⟩

/-- The retained queue holds one packet, `36 07 00 01 74 00 01 00 70`, identifier 1, `Sent`: a PUBLISH whose
QoS bits are `11`. -/
example : retView C16Q_bad.sess.data.outbound =
    [([0x36, 0x07, 0x00, 0x01, 0x74, 0x00, 0x01, 0x00, 0x70], 1, .sent)] := by decide +kernel

/-- Every hypothesis of the reduced setting other than `kinds` holds of it (the broker, which answers only
what it knows, owes nothing, and nothing is in the inbound queue)… -/
theorem C16Q_bad_setting : SettingQ C16Q_bad := by
  have hctl : C16Q_bad.sess.data.outbound.control = [] := by decide +kernel
  have hexp : expected C16Q_bad.sess.data.outbound = [] := by decide +kernel
  have hrx : C16Q_bad.curNet.rx = enc [] := by decide +kernel
  have hka : C16Q_bad.sess.rt.nextPing = none ∧ C16Q_bad.sess.rt.pingTimeout = none := by decide +kernel
  refine ⟨by decide +kernel, by decide +kernel, ?_, ?_, ⟨?_, by decide +kernel, by decide +kernel⟩,
    by decide +kernel, by decide +kernel, by decide +kernel, by decide +kernel, by decide +kernel, ?_⟩
  · exact ⟨fun np h => (by rw [hka.1] at h; cases h), fun pt h => (by rw [hka.2] at h; cases h)⟩
  · rw [hctl]; intro e he; cases he
  · rw [hctl]; intro e he; cases he
  · exact ⟨[], hrx, by rw [hexp]⟩

/-- …but `kinds` fails, and so does the conclusion of the theorem: `mu = 1`, and neither now nor after one
round is the session quiescent. **The hypothesis `kinds` cannot be dropped for arbitrary programs.** -/
theorem C16Q_kinds_needed :
    Produced C16Q_bad ∧ SettingQ C16Q_bad ∧ ¬ KnownKinds C16Q_bad.sess.data.outbound ∧
    ¬ ∃ n, n ≤ mu C16Q_bad.sess.data.outbound ∧ (rounds n C16Q_bad).sess.data.outbound.isQuiescent = true := by
  refine ⟨C16Q_bad_produced, C16Q_bad_setting, by unfold KnownKinds; decide +kernel, ?_⟩
  rintro ⟨n, hn, hq⟩
  have hmu : mu C16Q_bad.sess.data.outbound = 1 := by decide +kernel
  have h0 : (rounds 0 C16Q_bad).sess.data.outbound.isQuiescent = false := by decide +kernel
  have h1 : (rounds 1 C16Q_bad).sess.data.outbound.isQuiescent = false := by decide +kernel
  rw [hmu] at hn
  rcases (by omega : n = 0 ∨ n = 1) with rfl | rfl
  · rw [h0] at hq; cases hq
  · rw [h1] at hq; cases hq

/-- The packet just stays: six rounds later nothing has changed. -/
example : (List.range 7).map (fun n => (rounds n C16Q_bad).sess.data.outbound.isQuiescent) =
    [false, false, false, false, false, false, false] := by decide +kernel

end Minimq
