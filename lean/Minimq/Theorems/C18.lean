import Minimq.Proofs.Exchange
/-
C18 — operation handles: pending, complete, invalidated.

A handle is `Op = (kind, id, generation)`. `SessionData.status` reports `invalidated` when the
generations differ, else `pending` when the identifier is held by a retained packet (for `pub2`: or by
a release entry), else `complete` (`status_eq`, with `inFlight` for the queue test).

KNOWN FINDING F15 (`C18_F15_complete_then_pending_again`): the status is computed from the identifier
alone, so once the identifier of a completed operation has been handed out again in the same
generation, the old handle reports `pending` again (and `complete` only when the *new* operation
completes). The theorems below are therefore about the life of a handle up to its completion:
(a) pending when issued, (b) pending until its acknowledgement or a fresh session, (c) complete right
after the final acknowledgement, (d) invalidated exactly by a fresh session, (e) rejections.

Second limit, by construction of the counter: the generation wraps at 2^32
(`C18_generation_wraps`), so a handle kept across 2^32 fresh sessions is no longer reported
invalidated.
-/
namespace Minimq
open Gen Outbound

/-! ### (a) Issued handles are pending -/

/-- A handle whose generation is the current one and whose identifier is held by a retained packet is
`pending` — whatever its kind. -/
theorem C18_pending_while_retained (d : SessionData) (op : Op) (hg : op.generation = d.generation)
    (hr : d.outbound.hasRetained op.id = true) : d.status op = .pending := by
  rw [status_pending_iff]
  refine ⟨hg, ?_⟩
  unfold SessionData.inFlight
  cases op.kind <;> simp [hr]

/-- **Right after the request was enqueued** (allocate an identifier, encode, retain — the step
`SessStep.enqueue` every publish/subscribe/unsubscribe goes through) the handle built from the allocated
identifier and the current generation is `pending`. -/
theorem C18_pending_when_issued {ε : Type} (s : Session) (enc : Nat → (Nat → Nat → Bytes) → Except ε (Nat × Bytes))
    (off len : Nat) (isPub : Bool) (s3 : Session) (kind : OpKind)
    (hr : (s.alloc.1.encode enc).1.retain s.alloc.2 off len isPub = some s3) :
    s3.data.status { kind := kind, id := s.alloc.2, generation := s.data.generation } = .pending := by
  obtain ⟨h1, h2⟩ := enqueue_issues_pending s enc off len isPub s3 hr
  exact C18_pending_while_retained _ _ h2.symm h1

/-! ### (b) …and stay pending until the acknowledgement or a fresh session -/

/-- **One step**: a pending handle is still pending after any primitive step, unless the step handles an
inbound packet that acknowledges the handle's identifier (SUBACK, UNSUBACK, PUBACK, PUBREC or PUBCOMP
carrying that identifier) or is the CONNACK of a fresh broker session. -/
theorem C18_pending_stable {s s' : Session} (st : SessStep s s') {op : Op} (hp : s.data.status op = .pending) :
    s'.data.status op = .pending ∨
    (∃ p, s' = (s.handle p).1 ∧ ((∃ k, p.ackOf = some (op.id, k)) ∨ ∃ rs, p = .pubComp op.id rs)) ∨
    (∃ block now, s' = (s.activate false block now).1) :=
  st.status_pending hp

/-- **Any execution**: if a handle is pending at the start of a program and not pending at its end, some
step of the execution handled an acknowledgement for its identifier or was a fresh-session CONNACK, and
the handle was pending until that step. -/
theorem C18_pending_until_acknowledged {I : Session → Prop} (hI : Closed I) (w : World) (ds : List Directive)
    (h : I w.sess) {op : Op} (hp : w.sess.data.status op = .pending)
    (hn : (ds.foldl World.execDirective w).sess.data.status op ≠ .pending) :
    ∃ a b, Reach I w.sess a ∧ SessStep a b ∧ Reach I b (ds.foldl World.execDirective w).sess ∧
      a.data.status op = .pending ∧
      ((∃ p, b = (a.handle p).1 ∧ ((∃ k, p.ackOf = some (op.id, k)) ∨ ∃ rs, p = .pubComp op.id rs)) ∨
       (∃ block now, b = (a.activate false block now).1)) := by
  have hr := run_reach hI ds w h
  generalize (ds.foldl World.execDirective w).sess = sf at hr hn
  induction hr with
  | refl => exact absurd hp hn
  | @tail b c hr st hi ih =>
    by_cases hb : b.data.status op = .pending
    · rcases st.status_pending hb with h1 | h1
      · exact absurd h1 hn
      · exact ⟨b, c, hr, st, Reach.refl _, hb, h1⟩
    · obtain ⟨x, y, r1, sxy, r2, hx, hrem⟩ := ih hb
      exact ⟨x, y, r1, sxy, r2.tail st hi, hx, hrem⟩

/-- A packet that acknowledges the identifier but finds no packet of the acknowledged kind (stale or
mismatched acknowledgement) changes nothing, so the handle stays as it was. -/
theorem C18_stale_ack_changes_nothing (d : SessionData) (r : Runtime) (id : Nat) (rs : ReasonIn) (pr codes : Bytes) :
    (d.awaits id .subAck = false → (handlePacket d r (.subAck id pr codes)).1 = d) ∧
    (d.awaits id .unsubAck = false → (handlePacket d r (.unsubAck id pr codes)).1 = d) ∧
    (d.awaits id .pubAck = false → (handlePacket d r (.pubAck id rs)).1 = d) ∧
    (d.awaits id .pubRec = false → (handlePacket d r (.pubRec id rs)).1 = d) ∧
    (d.outbound.hasPendingRelease id = false → (handlePacket d r (.pubComp id rs)).1 = d) := by
  refine ⟨fun h => by rw [handlePacket_subAck]; simp [h], fun h => by rw [handlePacket_unsubAck]; simp [h],
    fun h => by rw [handlePacket_pubAck]; simp [h], fun h => ?_, fun h => by rw [handlePacket_pubComp]; simp [h]⟩
  rw [handlePacket_pubRec]
  simp only [h, Bool.false_eq_true, if_false]
  split <;> rfl

/-! ### (c) Complete after the final acknowledgement -/

/-- **SUBACK / UNSUBACK / PUBACK that finds its packet**: with distinct identifiers in flight (`IdInv`,
an invariant of every execution) the handle with that identifier and the current generation reports
`complete` right after — whether or not the acknowledgement carried a failure code. -/
theorem C18_complete_after_ack (d : SessionData) (r : Runtime) (op : Op) (rs : ReasonIn) (pr codes : Bytes)
    (hinv : d.IdInv) (hg : op.generation = d.generation) :
    (d.awaits op.id .subAck = true → (handlePacket d r (.subAck op.id pr codes)).1.status op = .complete) ∧
    (d.awaits op.id .unsubAck = true → (handlePacket d r (.unsubAck op.id pr codes)).1.status op = .complete) ∧
    (d.awaits op.id .pubAck = true → (handlePacket d r (.pubAck op.id rs)).1.status op = .complete) := by
  refine ⟨fun h => ?_, fun h => ?_, fun h => ?_⟩
  · rw [handlePacket_subAck]; simp only [h, if_true]; exact acked_status_complete hinv h hg
  · rw [handlePacket_unsubAck]; simp only [h, if_true]; exact acked_status_complete hinv h hg
  · rw [handlePacket_pubAck]; simp only [h, if_true]; exact acked_status_complete hinv h hg

/-- **QoS 2, PUBREC with a failure code**: the exchange is over, the handle reports `complete`. -/
theorem C18_pub2_complete_after_failed_pubrec (d : SessionData) (r : Runtime) (op : Op) (rs : ReasonIn)
    (hinv : d.IdInv) (hg : op.generation = d.generation) (ha : d.awaits op.id .pubRec = true)
    (hfail : reasonSuccess rs.rc = false) :
    (handlePacket d r (.pubRec op.id rs)).1.status op = .complete := by
  rw [handlePacket_pubRec]; simp only [ha, hfail, if_true, Bool.not_false]
  exact acked_status_complete hinv ha hg

/-- **QoS 2, between a successful PUBREC and the PUBCOMP** the handle still reports `pending` (the
release entry holds the identifier) — given room in the release queue and a PUBREL within the broker's
packet size limit (otherwise see `C03_capacity_needed`: the exchange is dropped and the handle reports
`complete`). -/
theorem C18_pub2_pending_after_pubrec (d : SessionData) (r : Runtime) (op : Op) (rs : ReasonIn)
    (hk : op.kind = .pub2) (hg : op.generation = d.generation) (ha : d.awaits op.id .pubRec = true)
    (hok : reasonSuccess rs.rc = true) (hsz : r.packetTooLarge 5 = false)
    (hcap : d.outbound.release.length < MAX_PENDING_RELEASE) :
    (handlePacket d r (.pubRec op.id rs)).1.status op = .pending := by
  rw [handlePacket_pubRec]
  simp only [ha, hok, hsz, hcap, if_true, Bool.not_true, Bool.false_eq_true, if_false]
  exact withRelease_status_pending (d.acked op.id .pubRec) op hk hg _

/-- **QoS 2, PUBCOMP that finds its release entry**: the handle reports `complete` (success or failure
code alike). -/
theorem C18_pub2_complete_after_pubcomp (d : SessionData) (r : Runtime) (op : Op) (rs : ReasonIn)
    (hinv : d.IdInv) (hg : op.generation = d.generation) (ha : d.outbound.hasPendingRelease op.id = true) :
    (handlePacket d r (.pubComp op.id rs)).1.status op = .complete := by
  rw [handlePacket_pubComp]; simp only [ha, if_true]
  exact pubcomp_status_complete hinv ha hg

/-! ### (d) Invalidated exactly by a fresh broker session -/

/-- `status` reports `invalidated` iff the handle's generation is not the session's. -/
theorem C18_invalidated_iff (d : SessionData) (op : Op) :
    d.status op = .invalidated ↔ op.generation ≠ d.generation :=
  status_invalidated_iff d op

/-- A fresh-session reset moves the generation to `(g + 1) % 2^32 ≠ g`, so every handle of the session
that was replaced reports `invalidated` right after. -/
theorem C18_reset_invalidates (d : SessionData) (op : Op) (hg : op.generation = d.generation) :
    d.reset.generation = (d.generation + 1) % 4294967296 ∧ d.reset.status op = .invalidated := by
  refine ⟨rfl, ?_⟩
  rw [status_invalidated_iff, hg]
  exact (reset_generation_ne d).symm

/-- The same for the primitive the operations use: the CONNACK of a fresh broker session. -/
theorem C18_fresh_session_invalidates (s : Session) (block : Bytes) (now : Nat) (op : Op)
    (hg : op.generation = s.data.generation) :
    (s.activate false block now).1.data.status op = .invalidated := by
  rw [status_invalidated_iff, hg, (activate_false_data s block now).1]
  omega

/-- **The generation changes in no other step**: every primitive step keeps it, except the CONNACK of a
fresh broker session. Hence a handle is reported `invalidated` only after such a CONNACK. -/
theorem C18_generation_changes_only_on_fresh_session {s s' : Session} (st : SessStep s s') :
    s'.data.generation = s.data.generation ∨
    (∃ block now, s' = (s.activate false block now).1 ∧
      s'.data.generation = (s.data.generation + 1) % 4294967296) :=
  st.generation

theorem C18_inbound_keeps_generation (d : SessionData) (r : Runtime) (p : Recv) :
    (handlePacket d r p).1.generation = d.generation :=
  handlePacket_generation d r p

/-! ### (e) Rejections -/

/-- **`handle_packet` (whose error `poll`/`recv`/`drive` return: `processReceivedPacket` passes `Peer` errors through) reports `Peer(Rejected rc)` exactly when** (`Recv.rejects`): a SUBACK/UNSUBACK that found
its packet has `rc` as its first failing code; a PUBACK that found its packet, a PUBREC that found its
PUBLISH *or whose identifier has a release entry*, or a PUBCOMP that found its release entry carries
the failure code `rc`. No other inbound packet produces it. -/
theorem C18_rejected_iff (d : SessionData) (r : Runtime) (p : Recv) (rc : Nat) :
    (handlePacket d r p).2.2 = .error (.peerRejected rc) ↔ p.rejects d rc :=
  handlePacket_rejected_iff d r p rc

/-- **…and the entry has been removed nevertheless**: when a final acknowledgement that found its entry
is rejected, the poll reports the rejection and the handle reports `complete`. -/
theorem C18_rejected_and_complete (d : SessionData) (r : Runtime) (op : Op) (rs : ReasonIn) (pr codes : Bytes)
    (rc : Nat) (hinv : d.IdInv) (hg : op.generation = d.generation) :
    (d.awaits op.id .subAck = true → firstFailure codes = some rc →
      (handlePacket d r (.subAck op.id pr codes)).2.2 = .error (.peerRejected rc) ∧
      (handlePacket d r (.subAck op.id pr codes)).1.status op = .complete) ∧
    (d.awaits op.id .unsubAck = true → firstFailure codes = some rc →
      (handlePacket d r (.unsubAck op.id pr codes)).2.2 = .error (.peerRejected rc) ∧
      (handlePacket d r (.unsubAck op.id pr codes)).1.status op = .complete) ∧
    (d.awaits op.id .pubAck = true → reasonSuccess rs.rc = false →
      (handlePacket d r (.pubAck op.id rs)).2.2 = .error (.peerRejected rs.rc) ∧
      (handlePacket d r (.pubAck op.id rs)).1.status op = .complete) ∧
    (d.awaits op.id .pubRec = true → reasonSuccess rs.rc = false →
      (handlePacket d r (.pubRec op.id rs)).2.2 = .error (.peerRejected rs.rc) ∧
      (handlePacket d r (.pubRec op.id rs)).1.status op = .complete) ∧
    (d.outbound.hasPendingRelease op.id = true → reasonSuccess rs.rc = false →
      (handlePacket d r (.pubComp op.id rs)).2.2 = .error (.peerRejected rs.rc) ∧
      (handlePacket d r (.pubComp op.id rs)).1.status op = .complete) := by
  have hc := C18_complete_after_ack d r op rs pr codes hinv hg
  refine ⟨fun h hf => ⟨?_, hc.1 h⟩, fun h hf => ⟨?_, hc.2.1 h⟩, fun h hf => ⟨?_, hc.2.2 h⟩,
    fun h hf => ⟨?_, C18_pub2_complete_after_failed_pubrec d r op rs hinv hg h hf⟩,
    fun h hf => ⟨?_, C18_pub2_complete_after_pubcomp d r op rs hinv hg h⟩⟩
  · rw [handlePacket_rejected_iff]; exact ⟨h, hf⟩
  · rw [handlePacket_rejected_iff]; exact ⟨h, hf⟩
  · rw [handlePacket_rejected_iff]; exact ⟨h, hf, rfl⟩
  · rw [handlePacket_rejected_iff]; exact ⟨Or.inl h, hf, rfl⟩
  · rw [handlePacket_rejected_iff]; exact ⟨h, hf, rfl⟩

/-! ### Instances and limits -/

def C18_rt : Runtime := { keepaliveMs := 0, configuredKeepaliveMs := 0 }

/-- One retained QoS 1 PUBLISH with identifier 1, generation 3. -/
def C18_ex : SessionData :=
  { generation := 3,
    outbound := { (Outbound.new 16) with
      buf := [0x32, 5, 0, 1, 0x61, 0, 1, 0, 0, 0, 0, 0, 0, 0, 0, 0], used := 7, nextSer := 1,
      retained := [{ id := 1, offset := 0, len := 7, state := .sent, ser := 0 }] } }

def C18_op : Op := { kind := .pub1, id := 1, generation := 3 }

/-- Non-vacuity: `C18_ex` satisfies `IdInv`; the handle is pending, complete after PUBACK(1) — also when
the PUBACK carries failure code 0x97, which the poll reports — and invalidated after a reset. -/
example :
    C18_ex.IdInv ∧ C18_ex.status C18_op = .pending ∧
    (handlePacket C18_ex C18_rt (.pubAck 1 { code := none, props := none })).1.status C18_op = .complete ∧
    (handlePacket C18_ex C18_rt (.pubAck 1 { code := some 0x97, props := none })).1.status C18_op = .complete ∧
    C18_ex.reset.status C18_op = .invalidated := by
  refine ⟨⟨⟨by decide, by decide, by decide, by decide⟩, by decide⟩, by decide, by decide, by decide, by decide⟩

example : (handlePacket C18_ex C18_rt (.pubAck 1 { code := some 0x97, props := none })).2.2 =
    .error (.peerRejected 0x97) := rfl

/-- Non-vacuity of `C18_pending_when_issued`: on a new session the retain step succeeds. -/
example :
    let s := Session.new { rx := 64, tx := 64, keepaliveS := 0, expiry := 0, downgrade := false, clientId := [],
                           auth := none, will := none }
    ((s.alloc.1.encode (ε := Unit) (fun _ _ => .error ())).1.retain s.alloc.2 0 4 true).isSome = true ∧ s.alloc.2 = 1 := by
  refine ⟨by decide, by decide⟩

/-- **F15 (known finding).** The handle of the QoS 1 publish with identifier 1 reports `pending`, then —
after its PUBACK — `complete`, and then `pending` AGAIN once a later request of the same generation has
been retained under the reused identifier 1 (the allocator hands an identifier out again as soon as it
is free, e.g. after the 16-bit counter has wrapped). Completion of a handle is therefore only
meaningful until its identifier is reused. -/
theorem C18_F15_complete_then_pending_again :
    let d1 := (handlePacket C18_ex C18_rt (.pubAck 1 { code := none, props := none })).1
    C18_ex.status C18_op = .pending ∧ d1.status C18_op = .complete ∧
    ∃ o2, d1.outbound.retainPacket 1 0 7 = some o2 ∧
      ({ d1 with outbound := o2 } : SessionData).status C18_op = .pending := by
  refine ⟨by decide, by decide, _, rfl, by decide⟩

/-- The exception in `C18_rejected_iff`: a duplicate PUBREC with a failure code for an identifier whose
PUBREL is already queued is reported as a rejection although nothing was removed — the `pub2` handle
keeps reporting `pending`. -/
example :
    let d : SessionData := { outbound := { (Outbound.new 8) with release := [{ id := 4, rc := 0, state := .sent }] } }
    (handlePacket d C18_rt (.pubRec 4 { code := some 0x80, props := none })).2.2 = .error (.peerRejected 0x80) ∧
    (handlePacket d C18_rt (.pubRec 4 { code := some 0x80, props := none })).1.status
      { kind := .pub2, id := 4, generation := 0 } = .pending := by
  refine ⟨rfl, by decide⟩

/-- The generation counter wraps: after a reset at generation `2^32 - 1` handles of generation 0 are no
longer reported invalidated. -/
theorem C18_generation_wraps :
    ({ generation := 4294967295, outbound := Outbound.new 8 } : SessionData).reset.generation = 0 := by
  decide

end Minimq
