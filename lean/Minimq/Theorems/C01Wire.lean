import Minimq.Proofs.WireTop
/-
C01, whole machine — the outbound byte stream of every transport is whole framed packets.

`Theorems/C01.lean` proves the local facts (every encoder output is a well-formed packet, the
scheduler continues the entry in progress, the arena holds whole packets). This file proves the
end-to-end statement for every program (list of directives) from the initial world: what `write`
has accepted on a transport is, at every moment, a sequence of whole framed packets followed by the
written part of at most one more, and that part is exactly what the session state says is half
written — whatever the transport does (partial acceptances, errors, end of stream), whatever the
broker sends, and whichever operation is dropped at whichever await point, with one exception that
is the property's own: dropping a future that is suspended inside the operation-local `write_all` of
CONNECT, of a QoS 0 PUBLISH or of DISCONNECT (connect and QoS 0 publish are not cancel-safe; a
cancelled `disconnect` is finding F2b).

Vocabulary.
 * `Framed bs` (`Proofs/Arena.lean`): header byte, canonical remaining length, exactly that many bytes.
   That each packet is moreover a well-formed MQTT 5 client packet is `Theorems/C01.lean`/`C09`.
 * `w.tornNets` is a ghost field this proof adds to the model (never printed; the driver's
   output on all traces is unchanged; the other one, `w.log`, is used by `Theorems/C02Wire.lean`): the ordinals (1 = first) of the transports on which such a
   local write was dropped. It is set by `cancelFut` and nowhere else (`C01_mark_only_when_local_write_dropped`).
 * Fuel. The machine functions are defined with fuel for the synchronous code between two I/O calls.
   The theorems below do not assume that it suffices: the proof carries a potential (a decision still
   available to the next I/O call, self-wakes left, a complete inbound packet in the reader, which
   flush of the operation is running) that every call decreases and that `pollFuel = 4000` covers at
   every entry (`MachineW`, `poll_post`), so the induction never enters an out-of-fuel branch. (That the
   trace never contains a `fuel` line is thereby evident but not stated as a theorem: it would be a
   statement about strings.)

The proof is in `Proofs/WireSess.lean` (which queue entry is "the current one", at most one in
progress, `set_written`/`complete_flush` find it), `Proofs/WireLift.lean` (predicates on the world that
every machine function preserves), `Proofs/Wire.lean` (a precondition for each of the thirteen machine
functions, induction on fuel) and `Proofs/WireTop.lean` (`poll`, the directives, programs).
-/
namespace Minimq
open Gen World Outbound

/-- **The wire of the current transport is whole packets plus the part the session knows about.**
Run any program from the initial world and let `w` be the world it ends in. Suppose no operation-local
write was dropped on the current transport. While the connection is live, or
the handshake is in flight, the bytes accepted by the current transport are `frames.flatten ++ part`
with every element of `frames` a whole framed packet, and

 * either `part = []`, no queue entry is partially written, and no local write is suspended; or
 * exactly one entry of the three queues is in progress, `n + 1 <` its packet's length bytes of it have
   been written, `part` is exactly those bytes, every other entry is untouched or completely sent,
   and no local write is suspended (whatever runs next — also after the suspended operation was
   dropped — `next_step` returns that entry and `perform_outbound_step` offers its remaining bytes); or
 * the suspended operation is inside the `write_all` of CONNECT, a QoS 0 PUBLISH or DISCONNECT holding
   `rest`, `part ++ rest` is a whole framed packet, and no queue entry is in progress.

In particular no operation ever starts a packet in the middle of another one. -/
theorem C01_wire_is_whole_packets (cfg : Cfg) (ds : List Directive) :
    let w := ds.foldl World.execDirective { sess := Session.new cfg }
    w.nets.length ∉ w.tornNets → (w.live = true ∨ (w.conn = none ∧ w.fut.isSome = true)) →
    ∃ (frames : List Bytes) (part : Bytes), w.curNet.wire = frames.flatten ++ part ∧ (∀ f ∈ frames, Framed f) ∧
      ((part = [] ∧ tearsPacket w.fut = false ∧ w.sess.data.outbound.NoPartial) ∨
       (∃ n bytes, part = bytes.take (n + 1) ∧ n + 1 < bytes.length ∧ Framed bytes ∧ tearsPacket w.fut = false ∧
          w.sess.data.outbound.OnePartial n bytes) ∨
       (∃ rest, (w.fut = some (.connWrite rest) ∨ w.fut = some (.q0Write rest) ∨ w.fut = some (.discWrite rest)) ∧
          Framed (part ++ rest) ∧ w.sess.data.outbound.NoneInProgress)) := by
  intro w hnt hact
  exact (run_WInv ds { sess := Session.new cfg } (WInv_init cfg)).wire hnt hact

/-- **Every transport ever handed to `connect`** — the current one whatever its state (mid-handshake,
live, dead, dropped) and every earlier one — carries whole framed packets followed at most by the
beginning of one more (a connection that died, or was replaced, in the middle of a packet), unless an
operation-local write was dropped on it. Transport `i` (0-based) has ordinal `i + 1` in `tornNets`.
By itself this is a weak statement (`Framed` only constrains the length field, and `rest` is
existential: it is the *final* shape of a wire). What excludes interleaved packets is
`C01_wire_is_whole_packets` — which accounts for the partial packet by the queue state and holds after
*every* prefix of the program — together with `C01_replaced_transport_untouched` and C11 (a dead handle
writes nothing): each byte was appended while the stronger statement held of the then-current transport. -/
theorem C01_every_wire_is_a_prefix_of_whole_packets (cfg : Cfg) (ds : List Directive) :
    let w := ds.foldl World.execDirective { sess := Session.new cfg }
    ∀ i net, w.nets[i]? = some net → (i + 1) ∉ w.tornNets →
    ∃ (frames : List Bytes) (rest : Bytes), (∀ f ∈ frames, Framed f) ∧ frames.flatten = net.wire ++ rest := by
  intro w i net hg hnt
  obtain ⟨frames, hf, rest, hr⟩ := (run_WInv ds { sess := Session.new cfg } (WInv_init cfg)).all_wires i net hg hnt
  exact ⟨frames, rest, hf, hr⟩

/-- **A transport that has been replaced is never written to again**: no directive changes any
transport other than the current one (the last of `nets`); `connect` opens a new one behind them. From
any world. (That a *dead* connection never touches its transport either is `C11_dead_stays_dead`.) -/
theorem C01_replaced_transport_untouched (w : World) (d : Directive) (i : Nat) (hi : i + 1 < w.nets.length) :
    (w.execDirective d).nets[i]? = w.nets[i]? :=
  exec_older_nets w d i hi

/-- **The ghost mark means what it says**: a directive changes `tornNets` only if the future it finds
suspended is inside an operation-local write — then `connect`, `drop`, `cancel` and every operation
start drop it (`cancelFut`) and mark the current transport. From any world. -/
theorem C01_mark_only_when_local_write_dropped (w : World) (d : Directive) (h : tearsPacket w.fut = false) :
    (w.execDirective d).tornNets = w.tornNets :=
  exec_tornNets w d h

/-- …and `tearsPacket` is exactly "suspended in the `write_all` of CONNECT, QoS 0 PUBLISH or DISCONNECT". -/
theorem C01_tearsPacket_iff (fut : Option Pc) :
    tearsPacket fut = true ↔ ∃ rest, fut = some (.connWrite rest) ∨ fut = some (.q0Write rest) ∨ fut = some (.discWrite rest) := by
  cases fut with
  | none => simp [tearsPacket]
  | some pc => cases pc <;> simp [tearsPacket]

/-! ### Non-vacuity -/

/-- A client with a 64-byte receive buffer and a 128-byte arena, no keep-alive. -/
def C01Wire_cfg : Cfg :=
  { rx := 64, tx := 128, keepaliveS := 0, expiry := 300, downgrade := false, clientId := [0x63], auth := none, will := none }

/-- connect, CONNACK, run the handshake to the end, publish at QoS 1, and let the transport accept
only three bytes of the PUBLISH. -/
def C01Wire_prog : List Directive :=
  [.connect, .rx [0x20, 0x03, 0x00, 0x00, 0x00], .go,
   .publish { qos := 1, retain := false, topic := [0x74], payload := .bytes [0x70], props := .slice [] }, .d 3]

/-- The hypotheses of `C01_wire_is_whole_packets` hold for that program, and the second alternative is
the one that applies: the connection is live, nothing is marked torn, the wire holds the 29-byte
CONNECT and 3 bytes of the PUBLISH, and the one retained entry records exactly 3 bytes written. -/
example :
    let w := C01Wire_prog.foldl World.execDirective { sess := Session.new C01Wire_cfg }
    w.nets.length ∉ w.tornNets ∧ w.live = true ∧ w.curNet.wire.length = 29 + 3 ∧
    w.curNet.wire.drop 29 = ([0x32, 0x07, 0x00] : Bytes) ∧
    w.sess.data.outbound.retained.map (·.state) = [.write 3] := by
  decide +kernel

/-- Mid-handshake: the transport has accepted 5 bytes of CONNECT, the rest is held by the suspended
`connect` (third alternative of the theorem). -/
example :
    let w := ([.connect, .d 5] : List Directive).foldl World.execDirective { sess := Session.new C01Wire_cfg }
    w.nets.length ∉ w.tornNets ∧ w.conn.isNone = true ∧ w.fut.isSome = true ∧
    w.curNet.wire = [0x10, 0x1b, 0x00, 0x04, 0x4d] := by
  decide +kernel

/-- Dropping that `connect` sets the mark (the theorem then says nothing about transport 1), and a new
`connect` starts a transport that is not marked. -/
example :
    (([.connect, .d 5, .cancel] : List Directive).foldl World.execDirective { sess := Session.new C01Wire_cfg }).tornNets = [1] ∧
    let w := ([.connect, .d 5, .cancel, .connect] : List Directive).foldl World.execDirective { sess := Session.new C01Wire_cfg }
    w.tornNets = [1] ∧ w.nets.length = 2 := by
  decide +kernel

/-- **Nothing follows a DISCONNECT, also when `disconnect()` is dropped.** In every world a program
produces (transport not marked torn): while `disconnect()` is suspended at its `flush` — the DISCONNECT is
wholly on the transport — the handle is already dead (`disconnect_with` calls `handle_disconnect()` before it
awaits the flush: the repaired defect F26). So dropping the future there leaves a dead handle, and a dead
handle writes nothing (`C01_dead_handle_writes_nothing`). Dropping it earlier, inside the write of the
DISCONNECT, is the torn case the mark records (known finding F2b). -/
theorem C01_disconnect_flush_pending_means_dead (cfg : Cfg) (ds : List Directive) :
    let w := ds.foldl World.execDirective { sess := Session.new cfg }
    w.nets.length ∉ w.tornNets → w.fut = some .discFlush → w.live = false ∧ w.conn.isSome = true := by
  intro w hnt hf
  have hinv := run_WInv ds { sess := Session.new cfg } (WInv_init cfg)
  rcases hinv.cur with ht | hp
  · exact (hnt ht).elim
  · rw [hf] at hp
    have hp' : DiscFlushPre w.view := hp
    exact ⟨hp'.2.1, hp'.2.2.2⟩

/-- The same, one step earlier: the call of `doLocalWrite` that finds nothing left to write of the
DISCONNECT kills the handle before `doLocalFlush` runs, whatever the flush then does (pending, error, ok). -/
theorem C01_disconnect_written_kills_handle (fuel : Nat) (w : World) :
    doLocalWrite (fuel + 1) w 2 [] = doLocalFlush fuel w.handleDisconnect 2 := by
  simp only [doLocalWrite, List.isEmpty_nil, if_true, discDone_two]

/-- Concretely (the witness of F26): `disconnect`, the whole DISCONNECT accepted, the flush pending, the
future dropped, then a QoS 1 publish: the publish is refused with `Disconnected` and the wire ends with
the DISCONNECT. -/
example :
    let w := ([.connect, .rx [0x20, 0x03, 0x00, 0x00, 0x00], .go, .disconnect { reason := none, props := none }, .d 250,
               .cancel, .publish { qos := 1, retain := false, topic := [0x74], payload := .bytes [0x70], props := .slice [] },
               .go] : List Directive).foldl World.execDirective { sess := Session.new C01Wire_cfg }
    w.tornNets = [] ∧ w.live = false ∧ w.curNet.wire.drop 29 = ([0xe0, 0x00] : Bytes) := by
  decide +kernel

/-- Cancel-safety of the queued writes, concretely: the QoS 1 publish of `C01Wire_prog` is dropped
after 3 bytes; nothing is marked, and the `poll` that follows writes the remaining 6 bytes of the same
packet — the wire is CONNECT followed by one whole PUBLISH. -/
example :
    let w := (C01Wire_prog ++ ([.cancel, .poll, .go] : List Directive)).foldl World.execDirective { sess := Session.new C01Wire_cfg }
    w.tornNets = [] ∧ w.curNet.wire.drop 29 = ([0x32, 0x07, 0x00, 0x01, 0x74, 0x00, 0x01, 0x00, 0x70] : Bytes) ∧
    w.sess.data.outbound.retained.map (·.state) = [.sent] := by
  decide +kernel

end Minimq
