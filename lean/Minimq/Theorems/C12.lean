import Minimq.Proofs.SessionFacts
/-
C12 — the session can always be reconnected, whatever happened before.

What is proved here is the part of the property that concerns the state `connect()` starts from and
the first thing it does, for *every* prior state of the session (so: whatever happened on earlier
connections): `Session.beginConnect` (the three resets at the top of `Session::connect`),
`World.startConnect` (`connect` up to its first await) and `doLocalWrite … 0 …` (the `write_all` of
the CONNECT). `World.connectStart` is the world after the resets, with the new transport opened.
That the handshake then *completes* against a broker whose CONNACK the client accepts, over a healthy
transport, is `Theorems/C12Machine.lean` (bounded liveness); what an accepted CONNACK leaves behind is C05.

Finding kept explicit (room): CONNECT is encoded into the scratch space of the transmit arena, i.e.
into `capacity − Σ len(retained packets)` bytes. When the retained packets leave less than
`5 + |CONNECT body|` bytes, `connect()` fails with `BufferTooSmall` before anything is written
(`C12_connect_fits_iff`, `C12_finding_retained_packets_block_connect`) — and it will fail again on
every retry, because only an acknowledgement (which needs a connection) or a session-absent CONNACK
can free the space.
-/
namespace Minimq
open Gen World Outbound

/-- **No partial packet is carried over, in or out.** From any state whatsoever the resets at the top
of `connect` leave: an empty packet reader (no bytes, no announced length); the connection marked as
not resumed; both keep-alive deadlines cleared; and no entry of any of the three outbound queues in
the middle of a write or waiting for a flush. The size of the receive buffer, the client identifier
and `sessionPresent` are as before. -/
theorem C12_resets_from_any_state (s : Session) :
    s.beginConnect.reader.data = [] ∧ s.beginConnect.reader.packetLength = none ∧
    s.beginConnect.reader.packetAvailable = false ∧ s.beginConnect.reader.cap = s.reader.cap ∧
    s.beginConnect.rt.sessionResumed = false ∧ s.beginConnect.rt.nextPing = none ∧ s.beginConnect.rt.pingTimeout = none ∧
    (∀ e ∈ s.beginConnect.data.outbound.control, e.state.isInProgress = false) ∧
    (∀ e ∈ s.beginConnect.data.outbound.release, e.state.isInProgress = false) ∧
    (∀ e ∈ s.beginConnect.data.outbound.retained, e.state.isInProgress = false) ∧
    s.beginConnect.clientId = s.clientId ∧ s.beginConnect.data.sessionPresent = s.data.sessionPresent :=
  beginConnect_spec s

/-- Non-vacuity: a session that was cut off in the middle of everything — half a packet in the
reader, a ping timeout running, a PUBACK half written, a PUBREL waiting for its flush. -/
example :
    let s0 := Session.new { rx := 64, tx := 64, keepaliveS := 60, expiry := 0, downgrade := false, clientId := [], auth := none, will := none }
    let o : Outbound := { s0.data.outbound with control := [{ action := { typ := MT_PubAck, id := 3, rc := 0 }, state := .write 2 }], release := [{ id := 9, rc := 0, state := .flush }] }
    let s : Session := { s0 with reader := { s0.reader with data := [b 0x30, b 9, b 0], packetLength := some 11 }, rt := { s0.rt with sessionResumed := true, pingTimeout := some 5, nextPing := some 7 }, data := { s0.data with outbound := o } }
    s.beginConnect.reader.data = [] ∧ s.beginConnect.rt.pingTimeout = none ∧
    s.beginConnect.data.outbound.control.map (·.state) = [.write 0] ∧ s.beginConnect.data.outbound.release.map (·.state) = [.write 0] := by
  decide

/-- **A new transport.** `connect` drops the old handle and any suspended operation, opens a new
transport whose wire and inbound queue are empty, and leaves every older transport as it is. -/
theorem C12_new_transport (w : World) :
    w.connectStart.sess = w.sess.beginConnect ∧ w.connectStart.nets = w.nets ++ [({ } : Net)] ∧
    w.connectStart.curNet.wire = [] ∧ w.connectStart.curNet.rx = [] ∧
    w.connectStart.fut = none ∧ w.connectStart.conn = none ∧ w.connectStart.now = w.now :=
  connectStart_spec w

/-- **The first thing offered to the new transport is the complete CONNECT.** Let `c` be the CONNECT
built from the session after the resets and `room` the scratch space of the arena. If the encoder
fails for `room` bytes, `connect` fails with that error and the new transport stays untouched;
otherwise `connect` proceeds to `write_all` on the new transport with exactly the packet the encoder
produced (it is read back from the arena unaltered). -/
theorem C12_connect_starts_with_CONNECT (w : World) (hinv : w.sess.data.outbound.ArenaInv) :
    let s1 := w.sess.beginConnect
    let c := s1.connectPacket
    let room := w.sess.data.outbound.scratchLen
    let w2 : World := { w.connectStart with sess := (s1.encode (connEnc c)).1 }
    (∀ e, encodeConnect room c = .error e →
      w.startConnect = w2.finishErr "connect" (Err.ofSer e) ∧ w.startConnect.nets = w.nets ++ [({ } : Net)]) ∧
    (∀ off pkt, encodeConnect room c = .ok (off, pkt) → w.startConnect = doLocalWrite pollFuel w2 0 pkt ∧ 0 < pkt.length) := by
  intro s1 c room w2
  obtain ⟨h1, h2⟩ := startConnect_spec w hinv
  refine ⟨?_, h2⟩
  intro e he
  refine ⟨h1 e he, ?_⟩
  rw [h1 e he]
  exact (connectStart_spec w).2.1

/-- **That packet is the CONNECT described by `connectPacket`.** The MQTT 5 reference parser decodes
it as a CONNECT with the session's clean-start flag, keep-alive, properties, client identifier, will
and credentials (given what the configuration layer guarantees: keep-alive below 2¹⁶ s, a receive
buffer of 1 … 2³²−1 bytes, a 32-bit expiry, UTF-8 strings, a will with QoS ≤ 2 and legal properties). -/
theorem C12_CONNECT_parses (s : Session) (cap off : Nat) (pkt rest : Bytes)
    (hka : s.rt.configuredKeepaliveMs / 1000 < 65536) (hcid : validUtf8 s.clientId = true)
    (hrx : 0 < s.reader.cap ∧ s.reader.cap < 4294967296) (hexp : s.expiry < 4294967296)
    (hwill : ∀ w, s.will = some w → w.qos ≤ 2 ∧ validUtf8 w.topic = true ∧ (∀ p ∈ w.props, p.wf = true) ∧
        (∀ p ∈ w.props, Spec.allowedIn .will p.kind.id = true ∧ Spec.legalValue p.kind.id p.toSpec.val.num = true))
    (hauth : ∀ a, s.auth = some a → validUtf8 a.user = true)
    (he : encodeConnect cap s.connectPacket = .ok (off, pkt)) :
    Spec.parseClientPacket (pkt ++ rest) =
      some (.connect (!s.data.sessionPresent) (s.rt.configuredKeepaliveMs / 1000)
              ((connectProps s.reader.cap s.expiry).map Property.toSpec) s.clientId (s.will.map Will.toSpec)
              (s.auth.map (·.user)) (s.auth.map (·.pass)), rest) := by
  obtain ⟨hwf, hlegal⟩ := connectProps_ok s.reader.cap s.expiry hrx.1 hrx.2 hexp
  exact connect_roundtrip cap off s.connectPacket (connectProps s.reader.cap s.expiry) pkt rest hka hcid rfl hwf hlegal hwill hauth he

/-- Non-vacuity of `C12_CONNECT_parses`: the CONNECT of a new session with a 64-byte receive buffer,
as the reference parser sees it. -/
example :
    let s := (Session.new { rx := 64, tx := 32, keepaliveS := 60, expiry := 0, downgrade := false, clientId := [], auth := none, will := none }).beginConnect
    (match encodeConnect 32 s.connectPacket with
     | .ok (_, pkt) => Spec.parseClientPacket pkt
     | _ => none) =
      some (.connect true 60 [⟨0x27, .four 64⟩, ⟨0x11, .four 0⟩, ⟨0x21, .two 8⟩] [] none none none, []) := by
  decide

/-- **On the new transport only a prefix of that CONNECT ever appears, and the rest is what remains to
be written.** When `connect` returns to its caller for the first time, the wire of the new transport
holds the first `k` bytes of the CONNECT and nothing else, every older transport is as it was, and
either the operation is suspended in the write holding exactly the remaining bytes, or it has ended,
or the whole CONNECT is on the wire and the operation waits in the flush or for the CONNACK. -/
theorem C12_wire_is_prefix_of_CONNECT (w : World) (hinv : w.sess.data.outbound.ArenaInv) (off : Nat) (pkt : Bytes)
    (he : encodeConnect w.sess.data.outbound.scratchLen w.sess.beginConnect.connectPacket = .ok (off, pkt)) :
    ∃ k, k ≤ pkt.length ∧ w.startConnect.nets.length = w.nets.length + 1 ∧ w.startConnect.nets.dropLast = w.nets ∧
      w.startConnect.curNet.wire = pkt.take k ∧
      ((w.startConnect.fut = some (.connWrite (pkt.drop k)) ∧ k < pkt.length) ∨ w.startConnect.fut = none ∨
       (k = pkt.length ∧ (w.startConnect.fut = some .connFlush ∨ w.startConnect.fut = some .connRead))) :=
  startConnect_wire w hinv off pkt he

/-- The same for every resumption of the write (`POLL` of a `connWrite` await point) and in general
for `write_all` of the handshake from any world: the wire grows by a prefix of the bytes still to be
written, and what stays suspended is exactly the rest. -/
theorem C12_write_all_progress (fuel : Nat) (w : World) (bytes : Bytes) (hn : w.nets ≠ []) (hf : w.fut = none) :
    ∃ k, k ≤ bytes.length ∧
      (doLocalWrite fuel w 0 bytes).nets.length = w.nets.length ∧
      (doLocalWrite fuel w 0 bytes).nets.dropLast = w.nets.dropLast ∧
      (doLocalWrite fuel w 0 bytes).curNet.wire = w.curNet.wire ++ bytes.take k ∧
      (((doLocalWrite fuel w 0 bytes).fut = some (.connWrite (bytes.drop k)) ∧ k < bytes.length) ∨
       (doLocalWrite fuel w 0 bytes).fut = none ∨
       (k = bytes.length ∧ ((doLocalWrite fuel w 0 bytes).fut = some .connFlush ∨
          (doLocalWrite fuel w 0 bytes).fut = some .connRead))) :=
  doLocalWrite_net fuel w bytes hn hf

/-- **When CONNECT fits.** With `body` the CONNECT's variable header and payload (every field can be
produced, and it is a legal remaining length): the encoder succeeds iff `5 + |body|` bytes of room
are available, where the room is the arena capacity minus the lengths of the retained packets;
otherwise it fails with `InsufficientMemory`, which `connect` reports as `BufferTooSmall`. -/
theorem C12_connect_fits_iff (o : Outbound) (c : Connect) (body : Bytes) (hb : catChunks c.chunks = .ok body)
    (hmax : body.length ≤ MQTT_VARINT_MAX) :
    o.scratchLen = o.buf.length - (o.retained.map (·.len)).sum ∧
    ((∃ r, encodeConnect o.scratchLen c = .ok r) ↔ MAX_FIXED_HEADER_SIZE + body.length ≤ o.scratchLen) ∧
    (¬ MAX_FIXED_HEADER_SIZE + body.length ≤ o.scratchLen → encodeConnect o.scratchLen c = .error .insufficientMemory) ∧
    Err.ofSer .insufficientMemory = .bufferTooSmall ∧
    (o.retained = [] → MAX_FIXED_HEADER_SIZE + body.length ≤ o.buf.length → ∃ r, encodeConnect o.scratchLen c = .ok r) := by
  obtain ⟨h1, h2, _⟩ := encodeConnect_ok_iff o.scratchLen c body hb hmax
  refine ⟨rfl, h1, h2, rfl, ?_⟩
  intro hr hfit
  apply h1.2
  unfold scratchLen usedAfterCompact capacity
  rw [hr]; simpa using hfit

/-- Finding (room), concretely: a 32-byte arena is enough for this session's CONNECT (31 bytes of
room needed) when nothing is retained; with one 4-byte packet retained the same `connect` fails with
`BufferTooSmall`, before anything is written. -/
theorem C12_finding_retained_packets_block_connect :
    let s0 := Session.new { rx := 64, tx := 32, keepaliveS := 60, expiry := 0, downgrade := false, clientId := [], auth := none, will := none }
    let o : Outbound := { s0.data.outbound with retained := [{ id := 1, offset := 0, len := 4, state := .sent, ser := 0 }], used := 4, nextSer := 1 }
    let s : Session := { s0 with data := { s0.data with outbound := o } }
    (match encodeConnect s0.beginConnect.data.outbound.scratchLen s0.beginConnect.connectPacket with | .ok (_, pkt) => pkt.length == 28 | _ => false) = true ∧
    s.beginConnect.data.outbound.scratchLen = 28 ∧
    (match encodeConnect s.beginConnect.data.outbound.scratchLen s.beginConnect.connectPacket with | .error .insufficientMemory => true | _ => false) = true := by
  decide

/-- **The retained packets survive the connect.** Whatever `connect` does up to its first await (and,
by C17, whatever happens afterwards), every retained packet is still there with the same serial,
identifier and bytes up to the DUP bit, in the same order, and the arena keeps its size and layout
invariant. -/
theorem C12_retained_packets_kept (w : World)
    (h : w.sess.data.outbound.ArenaInv ∧ w.sess.data.outbound.SerInv) :
    let o := w.startConnect.sess.data.outbound
    (o.ArenaInv ∧ o.SerInv) ∧ Keeps w.sess.data.outbound o ∧ o.buf.length = w.sess.data.outbound.buf.length :=
  startConnect_inv (closed_ArenaP w.sess.data.outbound) w ⟨h, Keeps.refl _, rfl⟩

end Minimq
