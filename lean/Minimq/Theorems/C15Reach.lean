import Minimq.Theorems.C15Machine
import Minimq.Proofs.ReaderReach
/-
C15, read half, for the machine — the reader hypothesis `Waiting` of `Theorems/C15Machine.lean` is
discharged for every world a program produces.

`C15Machine.lean` proves that the fragmentation of the inbound stream does not matter for a world `W`
suspended in `read_packet` (`W.fut = some (.waitRead outer dl y)`) under the hypothesis
`Waiting W.sess.reader W.curNet.rx`. Here:

* `C15M_waiting_rx_free` / `C15M_waiting_iff`: `Waiting r rx` says nothing about `rx`. Its field
  `inv : RInv r (r.data ++ rx)` mentions the stream only through
  `fixedHeader (r.data ++ rx) = .complete hl l` for a known length `l`, and the field `known` already puts
  that header inside `r.data`. So `Waiting r rx` is the reader-only predicate "probed, and the known
  length is the one the header of the bytes held announces" — an arbitrary (malformed, truncated,
  empty) broker script `rx` is fine.
* `C15M_known_length_reachable`: the second half holds in EVERY world a program produces (suspended
  or not): `packet_length` is only ever set by `probe_fixed_header` from the bytes held, bytes are only
  appended, and `take_packet` / `reset` forget both together.
* `C15M_probed_at_suspension`: the first half holds in every world a program produces that is
  suspended at `waitRead`: `read_packet` awaits `read()` only on a non-empty window that
  `receive_buffer` has just offered (`MalformedPacket` — remaining length of more than four bytes,
  packet larger than the receive buffer, receive buffer of size 0 — ends the connection instead, an
  empty window means a packet is complete and is handled instead), nothing touches the session while
  the operation is suspended, and `receive_buffer` is idempotent.
* `C15M_waiting_of_reachable`: hence `Waiting` at every reachable `waitRead` suspension. NO side
  condition is needed: not `W.live = true`, and not `W.nets.length ∉ W.tornNets` (the route through the
  wire invariant `WInv` of `Proofs/WireTop.lean`, whose `ReadOK` clause contains the window fact, would
  need the transport to be untorn, because `WInv.cur` says nothing about a torn transport; the direct
  induction over the thirteen machine functions in `Proofs/ReaderReach.lean` does not look at the wire).
* the consumer theorems of `C15Machine.lean` restated for reachable worlds, without any reader
  hypothesis: `C15M_partial_read_reachable`, `C15M_completing_read_reachable`,
  `C15M_one_packet_reachable`, `C15M_fragmentation_independent_reachable`, `C15M_stream_reachable`
  (`Admissible'` = `Admissible` minus `Waiting`).
-/
namespace Minimq
open Gen World

/-- **`Waiting` is a property of the reader alone**: it holds for one continuation of the inbound
stream iff it holds for any other. -/
theorem C15M_waiting_rx_free (r : Reader) (rx rx' : Bytes) : Waiting r rx ↔ Waiting r rx' :=
  (waiting_iff r rx).trans (waiting_iff r rx').symm

/-- **What `Waiting` is**: the reader is probed (`receive_buffer` called again returns the same reader
and the same non-empty window), and if it knows the length of the packet it is assembling, that length
is the total announced by the fixed header of the bytes it holds. -/
theorem C15M_waiting_iff (r : Reader) (rx : Bytes) :
    Waiting r rx ↔
      (∃ n, n ≠ 0 ∧ r.receiveWindow = some (r, n)) ∧
      (∀ l, r.packetLength = some l → ∃ hl, fixedHeader r.data = .complete hl l) :=
  (waiting_iff r rx).trans ⟨fun h => ⟨h.win, h.known⟩, fun h => ⟨h.1, h.2⟩⟩

/-- **In every world a program produces** — suspended or not, live or not — a known packet length is
the one announced by the fixed header of the bytes in the receive buffer. -/
theorem C15M_known_length_reachable (cfg : Cfg) (ds : List Directive) :
    let W := ds.foldl World.execDirective { sess := Session.new cfg }
    ∀ l, W.sess.reader.packetLength = some l → ∃ hl, fixedHeader W.sess.reader.data = .complete hl l :=
  KnownHdr_reachable cfg ds

/-- **In every world a program produces that is suspended in `read_packet`**, the reader is as
`receive_buffer` left it when it offered the non-empty window the pending `read()` was called on:
asking again gives the same reader and the same window. In particular the window is never empty and
`receive_buffer` does not fail at such a suspension. -/
theorem C15M_probed_at_suspension (cfg : Cfg) (ds : List Directive) (outer : Outer) (dl : Option Nat) (y : Bool) :
    let W := ds.foldl World.execDirective { sess := Session.new cfg }
    W.fut = some (.waitRead outer dl y) → ∃ n, n ≠ 0 ∧ W.sess.reader.receiveWindow = some (W.sess.reader, n) :=
  WaitWin_reachable cfg ds outer dl y

/-- **The reader hypothesis of the read-fragmentation theorems holds at every reachable suspension in
`read_packet`.** For every configuration and every program: if the world it ends in is suspended at
`waitRead`, the reader is `Waiting` for the bytes the current transport still holds. No hypothesis on the
handle (`live`) or on the ghost mark `tornNets` is needed. -/
theorem C15M_waiting_of_reachable (cfg : Cfg) (ds : List Directive) (outer : Outer) (dl : Option Nat) (y : Bool) :
    let W := ds.foldl World.execDirective { sess := Session.new cfg }
    W.fut = some (.waitRead outer dl y) → Waiting W.sess.reader W.curNet.rx :=
  fun hf => (ReadReady_reachable cfg ds).waiting hf _

/-- The same for whatever the broker may send: the reader is `Waiting` against every stream. -/
theorem C15M_waiting_of_reachable_any_stream (cfg : Cfg) (ds : List Directive) (outer : Outer) (dl : Option Nat)
    (y : Bool) (rx : Bytes) :
    let W := ds.foldl World.execDirective { sess := Session.new cfg }
    W.fut = some (.waitRead outer dl y) → Waiting W.sess.reader rx :=
  fun hf => (ReadReady_reachable cfg ds).waiting hf rx

/-- The form with the (redundant) liveness premise. -/
theorem C15M_waiting_of_reachable_live (cfg : Cfg) (ds : List Directive) (outer : Outer) (dl : Option Nat) (y : Bool) :
    let W := ds.foldl World.execDirective { sess := Session.new cfg }
    W.fut = some (.waitRead outer dl y) → W.live = true → Waiting W.sess.reader W.curNet.rx :=
  fun hf _ => C15M_waiting_of_reachable cfg ds outer dl y hf

/-- The invariant behind it is kept by every directive from ANY world that has it (not only from a
fresh session): worlds in the middle of a program, after `readPacket`, … -/
theorem C15M_ready_preserved (w : World) (h : ReadReady w) (ds : List Directive) :
    ReadReady (ds.foldl World.execDirective w) :=
  h.run ds

/-! ### The consumer theorems, for reachable worlds, without reader hypothesis

`W` is the world after the program `ds` from a fresh session with configuration `cfg`. -/

/-- **A read decision that does not complete the packet** (`C15M_partial_read` without `Waiting`): the
operation is suspended in the same read again; only the reader (holding `c` more bytes, probed), the
transport (`c` bytes shorter) and the trace (`r n c`, `rp n`) have changed; the reader is `Waiting`
again. -/
theorem C15M_partial_read_reachable (cfg : Cfg) (ds : List Directive) (W : World)
    (hW : W = ds.foldl World.execDirective { sess := Session.new cfg })
    (outer : Outer) (dl : Option Nat) (y : Bool) (k : Nat)
    (hfut : W.fut = some (.waitRead outer dl y)) (hdl : DeadlineOK W.now dl)
    (hne : W.curNet.rx ≠ []) (hk1 : 1 ≤ k) (hk : k ≤ 250)
    (hkind : readKind W.sess.reader W.curNet.rx (W.readCount k) = .more) :
    W.execDirective (.d k) =
      W.withRead (W.sess.reader.holding (W.sess.reader.data ++ W.curNet.rx.take (W.readCount k)))
        (W.curNet.rx.drop (W.readCount k)) [W.rpLine, W.rLine (W.readCount k)]
        (some (.waitRead outer dl true)) ∧
    Waiting (W.sess.reader.holding (W.sess.reader.data ++ W.curNet.rx.take (W.readCount k)))
      (W.curNet.rx.drop (W.readCount k)) := by
  subst hW
  exact C15M_partial_read _ outer dl y k hfut hdl ((ReadReady_reachable cfg ds).waiting hfut _) hne hk1 hk hkind

/-- **A read decision that completes the packet** (`C15M_completing_read` without `Waiting`):
`drive_packet` is entered in the world where the reader holds exactly the next packet of the framing
specification and the transport exactly the rest. -/
theorem C15M_completing_read_reachable (cfg : Cfg) (ds : List Directive) (W : World)
    (hW : W = ds.foldl World.execDirective { sess := Session.new cfg })
    (outer : Outer) (dl : Option Nat) (y : Bool) (k : Nat)
    (hfut : W.fut = some (.waitRead outer dl y))
    (hne : W.curNet.rx ≠ []) (hk1 : 1 ≤ k) (hk : k ≤ 250)
    (hkind : readKind W.sess.reader W.curNet.rx (W.readCount k) = .packet) :
    frame1 W.sess.reader.cap (W.sess.reader.data ++ W.curNet.rx) =
      .packet (W.sess.reader.data ++ W.curNet.rx.take (W.readCount k)) (W.curNet.rx.drop (W.readCount k)) ∧
    W.execDirective (.d k) =
      { driveEnter 3998
          (W.withRead (W.sess.reader.packetOf (W.sess.reader.data ++ W.curNet.rx.take (W.readCount k)))
            (W.curNet.rx.drop (W.readCount k)) [W.rLine (W.readCount k)] none) outer with slot := none } := by
  subst hW
  exact C15M_completing_read _ outer dl y k hfut ((ReadReady_reachable cfg ds).waiting hfut _) hne hk1 hk hkind

/-- **One packet, any fragmentation** (`C15M_one_packet` without `Waiting`), wherever in a packet the
program left the reader. -/
theorem C15M_one_packet_reachable (cfg : Cfg) (ds : List Directive) (W : World)
    (hW : W = ds.foldl World.execDirective { sess := Session.new cfg })
    (ks : List Nat) (outer : Outer) (dl : Option Nat) (y : Bool)
    (hfut : W.fut = some (.waitRead outer dl y)) (hdl : DeadlineOK W.now dl)
    (hne : W.curNet.rx ≠ [])
    (hks : ∀ k ∈ ks, 1 ≤ k ∧ k ≤ 250) (hlen : W.curNet.rx.length ≤ ks.length) :
    ∃ io, IoLines W io ∧ readPacket ks W = (W.afterPacket outer dl).addOld (io ++ W.out) := by
  subst hW
  exact C15M_one_packet ks _ outer dl y hfut hdl ((ReadReady_reachable cfg ds).waiting hfut _) hne hks hlen

/-- **Fragmented reading is equivalent to whole reading** (`C15M_fragmentation_independent` without
`Waiting`): after any program that ends suspended in `read_packet` before its deadline with bytes to
read, two lists of read decisions lead to worlds with the same session, transports, connection, handles,
last result, transmission log, suspended operation, clock, slot, wake count, starvation flag and ghost
marks, and traces that differ only in the read lines. -/
theorem C15M_fragmentation_independent_reachable (cfg : Cfg) (ds : List Directive) (W : World)
    (hW : W = ds.foldl World.execDirective { sess := Session.new cfg })
    (ks₁ ks₂ : List Nat) (outer : Outer) (dl : Option Nat) (y : Bool)
    (hfut : W.fut = some (.waitRead outer dl y)) (hdl : DeadlineOK W.now dl)
    (hne : W.curNet.rx ≠ [])
    (hk1 : ∀ k ∈ ks₁, 1 ≤ k ∧ k ≤ 250) (hl1 : W.curNet.rx.length ≤ ks₁.length)
    (hk2 : ∀ k ∈ ks₂, 1 ≤ k ∧ k ≤ 250) (hl2 : W.curNet.rx.length ≤ ks₂.length) :
    let a := readPacket ks₁ W
    let c := readPacket ks₂ W
    a.sess = c.sess ∧ a.nets = c.nets ∧ a.conn = c.conn ∧ a.handles = c.handles ∧
    a.lastRes = c.lastRes ∧ a.log = c.log ∧ a.fut = c.fut ∧ a.now = c.now ∧ a.slot = c.slot ∧
    a.wakes = c.wakes ∧ a.lastIoStarved = c.lastIoStarved ∧ a.tornNets = c.tornNets ∧
    ∃ new io₁ io₂, IoLines W io₁ ∧ IoLines W io₂ ∧
      a.out = new ++ io₁ ++ W.out ∧ c.out = new ++ io₂ ++ W.out := by
  subst hW
  exact C15M_fragmentation_independent ks₁ ks₂ _ outer dl y hfut hdl
    ((ReadReady_reachable cfg ds).waiting hfut _) hne hk1 hl1 hk2 hl2

/-- `Admissible'` (no reader hypothesis) implies `Admissible` after every program. -/
theorem C15M_admissible_reachable (cfg : Cfg) (ds : List Directive) (segs : List Seg) :
    let W := ds.foldl World.execDirective { sess := Session.new cfg }
    Admissible' W segs → Admissible W segs :=
  fun h => (ReadReady_reachable cfg ds).admissible segs h

/-- **A whole stream of packets, any fragmentation of each** (`C15M_stream` without `Waiting`). After
any program `ds`: two continuations made of the same directives between the reads of the packets and,
for each packet, its own list of read decisions in each run, where each `reads` piece is entered (in the
left run) suspended in `read_packet` before its deadline with bytes to read and enough decisions
(`Admissible'`) — end in `Sim`ilar worlds: equal but for the trace, traces equal up to read lines. -/
theorem C15M_stream_reachable (cfg : Cfg) (ds : List Directive) (segs : List Seg) :
    let W := ds.foldl World.execDirective { sess := Session.new cfg }
    Admissible' W segs → Sim (segs.foldl (runSeg true) W) (segs.foldl (runSeg false) W) :=
  fun h => C15M_stream segs _ ((ReadReady_reachable cfg ds).admissible segs h)

/-! ### Examples -/

/-- Connect, CONNACK; a QoS 0 PUBLISH whose `write_all` is cancelled after one byte (so the current
transport carries a torn packet and is marked in `tornNets`: the wire invariant says nothing about it any
more); `recv()`; the broker sends the first three bytes of a PUBLISH, read one at a time (the window is
one byte until the length is known, then only one byte is there); then the rest of the PUBLISH and
the first byte of a PINGRESP arrive. -/
def C15R_pre : List Directive :=
  [.connect, .go, .rx [0x20, 0x03, 0x00, 0x00, 0x00], .go,
   .publish { qos := 0, retain := false, topic := [0x61], payload := .bytes [0x41], props := .slice [] },
   .d 1, .cancel, .recv,
   .rx [0x30, 0x05, 0x00], .d 250, .d 250, .d 250,
   .rx [0x01, 0x61, 0x00, 0x41, 0xD0]]

def C15R_w : World := C15R_pre.foldl World.execDirective { sess := Session.new C15M_cfg }

/-- The world is suspended in `read_packet` in the MIDDLE of a packet (three bytes held, length known),
on a torn transport; the packet-boundary check `readsOKb` of `C15Machine.lean` fails, the check
without reader condition succeeds. -/
example : C15R_w.sess.reader.data = [0x30, 0x05, 0x00] ∧ C15R_w.sess.reader.packetLength = some 7 ∧
    C15R_w.curNet.rx = [0x01, 0x61, 0x00, 0x41, 0xD0] ∧
    C15R_w.nets.length = 1 ∧ C15R_w.tornNets = [1] ∧ C15R_w.live = true ∧
    readsOKb C15R_w [250, 250, 250, 250, 250] = false ∧
    readsOKb' C15R_w [250, 250, 250, 250, 250] = true := by decide +kernel

/-- The premise of `C15M_waiting_of_reachable` holds there, and so the reader is `Waiting`. -/
example : ∃ outer dl y, C15R_w.fut = some (.waitRead outer dl y) ∧ Waiting C15R_w.sess.reader C15R_w.curNet.rx := by
  obtain ⟨o, d, y, hf, _⟩ := readsOK'_of_b (w := C15R_w) (ks := [250, 250, 250, 250, 250]) (by decide +kernel)
  exact ⟨o, d, y, hf, C15M_waiting_of_reachable C15M_cfg C15R_pre o d y hf⟩

/-- Byte by byte and in one piece: the same PUBLISH is delivered, the PINGRESP byte stays in the
transport. -/
example :
    let a := readPacket [1, 1, 1, 1, 1] C15R_w
    let c := readPacket [250, 250, 250, 250, 250] C15R_w
    a.sess.reader.last = [0x30, 0x05, 0x00, 0x01, 0x61, 0x00, 0x41] ∧ c.sess.reader.last = a.sess.reader.last ∧
    a.curNet.rx = [0xD0] ∧ c.curNet.rx = [0xD0] ∧ a.fut.isNone = true ∧ c.fut.isNone = true ∧
    a.out.length = c.out.length + 6 := by decide +kernel

/-- The rest of the packet in two fragmentations, `recv` again, the lone PINGRESP byte. -/
def C15R_segs : List Seg :=
  [.reads [1, 1, 1, 1, 1] [250, 250, 250, 250, 250], .same .recv, .reads [250] [1]]

example : admissibleb' C15R_w C15R_segs = true := by decide +kernel

theorem C15R_example_stream :
    Sim (C15R_segs.foldl (runSeg true) C15R_w) (C15R_segs.foldl (runSeg false) C15R_w) :=
  C15M_stream_reachable C15M_cfg C15R_pre C15R_segs (admissible'_of_b _ _ (by decide +kernel))

/-- Why the premise "suspended at `waitRead`" cannot be dropped from `C15M_probed_at_suspension`: the
fresh world of a configuration with a receive buffer of size 0 is reachable (empty program) and its
reader is not probed — `receive_buffer` fails (`MalformedPacket`); such a client never gets to await a
`read()` at all. -/
example : ¬ ∃ n, n ≠ 0 ∧ (Session.new { C15M_cfg with rx := 0 }).reader.receiveWindow =
    some ((Session.new { C15M_cfg with rx := 0 }).reader, n) := by
  rintro ⟨n, _, h⟩
  have : (Session.new { C15M_cfg with rx := 0 }).reader.receiveWindow = none := by decide
  rw [this] at h; cases h

end Minimq
