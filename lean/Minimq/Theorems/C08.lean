import Minimq.Proofs.Decode
/-
C08 — any inbound bytes: valid packets are accepted verbatim, malformed ones are rejected with the
invalid-packet error and kill the connection handle, and nothing panics.

`fromBuffer` is `ReceivedPacket::from_buffer`; `Spec/Server.lean` is an independent description of
what a broker may send to a client that never asked for enhanced authentication (`ServerPacket`,
`encodeServer`, `ServerPacket.wf`). Property blocks are opaque byte strings behind their length on
both sides: the client decodes them lazily, which is recorded separately.

Oddities of `from_buffer` found on the way (each one checked below as an `example`):
* the value of the remaining length is never looked at (`D0 05` is a PINGRESP). It is harmless
  in the client because the packet reader hands over exactly the bytes the remaining length
  announces (`C15_packets_well_framed`), so a wrong length shows up as a short or long body;
* accepted although MQTT 5 forbids them: PUBLISH QoS 0 with DUP set (`38 04 00 01 61 00`,
  [MQTT-3.3.1-2]); PUBLISH with an empty topic and no topic alias (`30 03 00 00 00`, §3.3.2.1)
  — the client never offers a Topic Alias Maximum —; topic with a wildcard (`30 04 00 01 23 00`,
  [MQTT-3.3.2-2]) or with U+0000 (`30 04 00 01 00 00`, [MQTT-1.5.4-2]); packet identifier 0 in
  PUBLISH QoS > 0 and in every acknowledgement (`32 06 00 01 61 00 00 00`, `40 02 00 00`,
  §2.2.1: identifiers are non-zero); SUBACK / UNSUBACK without any reason code (`90 03 00 01 00`).
No valid packet is rejected (`C08_valid_accepted_verbatim`).
-/
namespace Minimq
open Gen Spec

/-! ## Acceptance -/

/-- **Every well-formed server packet is accepted with exactly the fields sent.** For each packet a
broker may send (`ServerPacket`) whose numbers fit their fields (`wf`: lengths, QoS ≤ 2, packet
identifier present exactly when QoS > 0, topic well-formed UTF-8 — the one check `deserialize_str`
makes), `from_buffer` on its MQTT 5 encoding returns the packet with the same session-present
flag, topic, QoS, retain, DUP, identifier, property block, payload, reason-code list. Reason codes
pass through `ReasonCode::from(u8)` (`normReason`: a byte that is not a known code becomes
`Unknown`, 0xFF); `image` says precisely that and nothing else. -/
theorem C08_valid_accepted_verbatim (p : ServerPacket) (hwf : p.wf = true) :
    fromBuffer (encodeServer p) = some p.image :=
  accept_all p hwf

/-- A non-trivial well-formed packet: PUBLISH QoS 1, DUP, id 7, a two-byte property block, payload;
and its encoding. -/
example : (ServerPacket.publish [0x61] 1 false true (some 7) [0x01, 0x01] [9, 9]).wf = true := by
  decide
example : encodeServer (.publish [0x61] 1 false true (some 7) [0x01, 0x01] [9, 9]) =
    [0x3A, 0x0A, 0x00, 0x01, 0x61, 0x00, 0x07, 0x02, 0x01, 0x01, 0x09, 0x09] := by decide
example : (ServerPacket.ack .pubRel 65535 (.full 0x92 [0x1F, 0x00, 0x00])).wf = true := by decide

/-- CONNACK: session present, reason code (normalised), property block. -/
theorem C08_connack_accepted (sp : Bool) (reason : Nat) (props : Bytes)
    (hwf : (ServerPacket.connAck sp reason props).wf = true) :
    fromBuffer (encodeServer (.connAck sp reason props)) =
      some (.connAck sp (normReason reason) props) :=
  accept_connAck sp reason props hwf

/-- PUBLISH: every field, for QoS 0, 1 and 2, with and without payload. -/
theorem C08_publish_accepted (topic : Bytes) (qos : Nat) (retain dup : Bool) (id : Option Nat)
    (props payload : Bytes)
    (hwf : (ServerPacket.publish topic qos retain dup id props payload).wf = true) :
    fromBuffer (encodeServer (.publish topic qos retain dup id props payload)) =
      some (.publish topic id props payload retain qos dup) :=
  accept_publish topic qos retain dup id props payload hwf

/-- PUBACK, PUBREC, PUBREL, PUBCOMP in each of the three legal shapes (id only; id and reason; id,
reason and property block). -/
theorem C08_ack_accepted (kind : AckKind) (id : Nat) (tail : Spec.Tail)
    (hwf : (ServerPacket.ack kind id tail).wf = true) :
    fromBuffer (encodeServer (.ack kind id tail)) = some (ServerPacket.ack kind id tail).image :=
  accept_ack kind id tail hwf

/-- SUBACK and UNSUBACK: identifier, property block, the reason codes byte for byte. -/
theorem C08_suback_accepted (id : Nat) (props codes : Bytes)
    (h1 : (ServerPacket.subAck id props codes).wf = true) :
    fromBuffer (encodeServer (.subAck id props codes)) = some (.subAck id props codes) ∧
    fromBuffer (encodeServer (.unsubAck id props codes)) = some (.unsubAck id props codes) :=
  ⟨accept_subAck id props codes h1, accept_unsubAck id props codes h1⟩

theorem C08_pingresp_accepted : fromBuffer (encodeServer .pingResp) = some .pingResp :=
  accept_pingResp

/-- DISCONNECT in each of the three legal shapes (empty; reason; reason and property block). -/
theorem C08_disconnect_accepted (tail : Spec.Tail) (hwf : (ServerPacket.disconnect tail).wf = true) :
    fromBuffer (encodeServer (.disconnect tail)) = some (ServerPacket.disconnect tail).image :=
  accept_disconnect tail hwf

/-! ## Rejection. `none` is `Err(ProtocolError::…)`, surfaced as `Peer(InvalidPacket)`. -/

theorem C08_reject_empty : fromBuffer [] = none := reject_empty

/-- Reserved packet type 0, whatever follows. -/
theorem C08_reject_type0 (hdr : UInt8) (rest : Bytes) (h : hdr.toNat / 16 = 0) :
    fromBuffer (hdr :: rest) = none :=
  reject_type0 hdr rest h

/-- Every packet type outside `inboundTypes`, whatever the flags and whatever follows… -/
theorem C08_reject_unsupported_type (hdr : UInt8) (rest : Bytes)
    (h : inboundTypes.contains (hdr.toNat / 16) = false) : fromBuffer (hdr :: rest) = none :=
  reject_unsupported_type hdr rest h

/-- …and those are, among the sixteen values of the type nibble, exactly: 0 (reserved), CONNECT,
SUBSCRIBE, UNSUBSCRIBE, PINGREQ (client-only packets) and AUTH. -/
theorem C08_unsupported_types : ∀ t, t < 16 →
    (inboundTypes.contains t = false ↔
      t ∈ [0, MT_Connect, MT_Subscribe, MT_Unsubscribe, MT_PingReq, MT_Auth]) :=
  unsupported_types

example : fromBuffer [0x10, 0x00] = none ∧ fromBuffer [0x82, 0x00] = none ∧
    fromBuffer [0xC0, 0x00] = none ∧ fromBuffer [0xF0, 0x00] = none := by decide

/-- Fixed-header flags other than the ones required for the type. -/
theorem C08_reject_bad_flags (hdr : UInt8) (rest : Bytes) (f : Nat)
    (hf : inboundFlags (hdr.toNat / 16) = some f) (h : hdr.toNat % 16 ≠ f) :
    fromBuffer (hdr :: rest) = none :=
  reject_bad_flags hdr rest f hf h

/-- The required flags: 0010 for PUBREL, 0000 for CONNACK, PUBACK, PUBREC, PUBCOMP, SUBACK,
UNSUBACK, PINGRESP, DISCONNECT; PUBLISH carries DUP / QoS / RETAIN there. -/
theorem C08_required_flags : ∀ t, t < 16 →
    inboundFlags t = (if t = MT_PubRel then some 2
      else if t ∈ [MT_ConnAck, MT_PubAck, MT_PubRec, MT_PubComp, MT_SubAck, MT_UnsubAck,
        MT_PingResp, MT_Disconnect] then some 0 else none) :=
  inboundFlags_table

example : fromBuffer [0x60, 0x02, 0x00, 0x01] = none ∧ fromBuffer [0x41, 0x02, 0x00, 0x01] = none ∧
    fromBuffer [0x62, 0x02, 0x00, 0x01] = some (.pubRel 1 ⟨none, none⟩) := by decide

/-- PUBLISH with both QoS bits set, whatever follows. -/
theorem C08_reject_qos3 (hdr : UInt8) (rest : Bytes) (ht : hdr.toNat / 16 = MT_Publish)
    (hq : hdr.toNat / 2 % 4 = 3) : fromBuffer (hdr :: rest) = none := by
  cases hv : decodeVarint rest with
  | none => exact reject_bad_varint hdr rest hv
  | some p => exact reject_body hdr rest p.2 p.1 hv (by rw [ht]; exact readBody_qos3 hdr _ hq)

example : fromBuffer [0x36, 0x06, 0x00, 0x01, 0x61, 0x00, 0x01, 0x00] = none := by decide

/-- **Remaining length.** Whatever the first byte, if what follows it does not begin with the
canonical encoding of a number up to 268 435 455, the packet is refused… -/
theorem C08_reject_bad_remaining_length (hdr : UInt8) (rest : Bytes)
    (h : ∀ n r, n ≤ 268435455 → rest ≠ Spec.encVarint n ++ r) : fromBuffer (hdr :: rest) = none :=
  reject_bad_varint hdr rest ((decodeVarint_none_iff rest).2 h)

/-- …in particular every padded (non-canonical) form — a zero final group after one, two or three
continuation bytes —, every integer of more than four bytes, and a packet that ends inside it. -/
theorem C08_reject_noncanonical_length (hdr b0 b1 b2 b3 : UInt8) (r : Bytes)
    (h0 : 128 ≤ b0.toNat) (h1 : 128 ≤ b1.toNat) (h2 : 128 ≤ b2.toNat) (h3 : 128 ≤ b3.toNat) :
    fromBuffer (hdr :: b0 :: 0 :: r) = none ∧ fromBuffer (hdr :: b0 :: b1 :: 0 :: r) = none ∧
    fromBuffer (hdr :: b0 :: b1 :: b2 :: 0 :: r) = none ∧
    fromBuffer (hdr :: b0 :: b1 :: b2 :: b3 :: r) = none ∧
    fromBuffer [hdr] = none ∧ fromBuffer [hdr, b0] = none ∧ fromBuffer [hdr, b0, b1] = none ∧
    fromBuffer [hdr, b0, b1, b2] = none := by
  obtain ⟨p1, p2, p3⟩ := decodeVarint_padded b0 b1 b2 r h0 h1 h2
  refine ⟨reject_bad_varint _ _ p1, reject_bad_varint _ _ p2, reject_bad_varint _ _ p3,
    reject_bad_varint _ _ (decodeVarint_too_long b0 b1 b2 b3 r h0 h1 h2 h3),
    reject_bad_varint _ _ rfl, reject_bad_varint _ _ ?_, reject_bad_varint _ _ ?_,
    reject_bad_varint _ _ ?_⟩
  · simp only [decodeVarint]; rw [if_neg (by omega)]
  · simp only [decodeVarint]; rw [if_neg (by omega), if_neg (by omega)]
  · simp only [decodeVarint]; rw [if_neg (by omega), if_neg (by omega), if_neg (by omega)]

example : fromBuffer [0xD0, 0x80, 0x00] = none ∧ fromBuffer [0x30, 0x80, 0x80, 0x80, 0x80, 0x01] = none := by
  decide

/-- **Fields running past the end of the packet**, PUBLISH: a body too short for the topic length,
a topic length larger than what follows it, no room for the packet identifier, a property length
that is malformed or larger than what follows it. For every header byte of type PUBLISH and every
well-formed remaining length. -/
theorem C08_reject_publish_overrun (hdr : UInt8) (rest body : Bytes) (n : Nat)
    (ht : hdr.toNat / 16 = MT_Publish) (hv : decodeVarint rest = some (n, body)) :
    (body.length < 2 → fromBuffer (hdr :: rest) = none) ∧
    (∀ hi lo r, body = hi :: lo :: r → r.length < u16of hi lo → fromBuffer (hdr :: rest) = none) ∧
    (∀ topic r, readStr body = some (topic, r) → 0 < hdr.toNat / 2 % 4 → r.length < 2 →
      fromBuffer (hdr :: rest) = none) ∧
    (∀ topic blk m r, readStr body = some (topic, blk) → hdr.toNat / 2 % 4 = 0 →
      (decodeVarint blk = none ∨ (decodeVarint blk = some (m, r) ∧ r.length < m)) →
      fromBuffer (hdr :: rest) = none) ∧
    (∀ topic ih il blk m r, readStr body = some (topic, ih :: il :: blk) → 0 < hdr.toNat / 2 % 4 →
      (decodeVarint blk = none ∨ (decodeVarint blk = some (m, r) ∧ r.length < m)) →
      fromBuffer (hdr :: rest) = none) := by
  have hblk : ∀ blk m r, (decodeVarint blk = none ∨ (decodeVarint blk = some (m, r) ∧ r.length < m)) →
      readPropBlock blk = none := by
    intro blk m r h
    rcases h with h | ⟨h, hl⟩
    · exact readPropBlock_bad_varint blk h
    · exact readPropBlock_overrun blk r m h hl
  refine ⟨?_, ?_, ?_, ?_, ?_⟩
  · intro h
    exact reject_body hdr rest body n hv (by rw [ht]; exact readBody_publish_topic hdr _ (readStr_short _ h))
  · intro hi lo r hb h
    subst hb
    exact reject_body hdr rest _ n hv (by rw [ht]; exact readBody_publish_topic hdr _ (readStr_overrun hi lo r h))
  · intro topic r hs hq hr
    exact reject_body hdr rest body n hv (by rw [ht]; exact readBody_publish_id_short hdr _ topic r hs hq hr)
  · intro topic blk m r hs hq h
    exact reject_body hdr rest body n hv
      (by rw [ht]; exact readBody_publish_props_qos0 hdr _ topic blk hs hq (hblk blk m r h))
  · intro topic ih il blk m r hs hq h
    exact reject_body hdr rest body n hv
      (by
        rw [ht]
        exact readBody_publish_props_qos12 hdr _ topic _ blk (u16of ih il) hs hq rfl (hblk blk m r h))

example : fromBuffer [0x30, 0x04, 0x00, 0x09, 0x61, 0x00] = none ∧
    fromBuffer [0x32, 0x04, 0x00, 0x01, 0x61, 0x00] = none ∧
    fromBuffer [0x30, 0x05, 0x00, 0x01, 0x61, 0x03, 0x00] = none := by decide

/-- PUBACK / PUBREC / PUBREL / PUBCOMP with no or half a packet identifier, or with a property
length that is malformed or larger than what follows it. -/
theorem C08_reject_ack_overrun (hdr : UInt8) (rest body : Bytes) (n : Nat)
    (ht : isAckType (hdr.toNat / 16) = true) (hv : decodeVarint rest = some (n, body)) :
    (body.length < 2 → fromBuffer (hdr :: rest) = none) ∧
    (∀ hi lo rc blk m r, body = hi :: lo :: rc :: blk → blk ≠ [] →
      (decodeVarint blk = none ∨ (decodeVarint blk = some (m, r) ∧ r.length < m)) →
      fromBuffer (hdr :: rest) = none) := by
  constructor
  · intro h
    exact reject_body hdr rest body n hv (by rw [readBody_ack _ _ _ ht, readAck_short _ h]; rfl)
  · intro hi lo rc blk m r hb hne h
    subst hb
    have : readPropBlock blk = none := by
      rcases h with h | ⟨h, hl⟩
      · exact readPropBlock_bad_varint blk h
      · exact readPropBlock_overrun blk r m h hl
    cases blk with
    | nil => exact absurd rfl hne
    | cons x xs =>
      exact reject_body hdr rest _ n hv
        (by rw [readBody_ack _ _ _ ht, readAck_bad_props hi lo rc x xs this]; rfl)

example : fromBuffer [0x40, 0x01, 0x00] = none ∧ fromBuffer [0x40, 0x05, 0x00, 0x01, 0x00, 0x02, 0x1F] = none := by
  decide

/-- CONNACK, SUBACK, UNSUBACK, DISCONNECT cut short or with a property length that is malformed or
larger than what follows it. -/
theorem C08_reject_other_overrun (hdr : UInt8) (rest body : Bytes) (n : Nat)
    (hv : decodeVarint rest = some (n, body)) (blk r : Bytes) (m : Nat)
    (hblk : decodeVarint blk = none ∨ (decodeVarint blk = some (m, r) ∧ r.length < m)) :
    (hdr.toNat / 16 = MT_ConnAck → (body.length < 2 ∨ ∃ sp rc, body = sp :: rc :: blk) →
      fromBuffer (hdr :: rest) = none) ∧
    ((hdr.toNat / 16 = MT_SubAck ∨ hdr.toNat / 16 = MT_UnsubAck) →
      (body.length < 2 ∨ ∃ hi lo, body = hi :: lo :: blk) → fromBuffer (hdr :: rest) = none) ∧
    (hdr.toNat / 16 = MT_Disconnect → blk ≠ [] → (∃ rc, body = rc :: blk) →
      fromBuffer (hdr :: rest) = none) := by
  have hb : readPropBlock blk = none := by
    rcases hblk with h | ⟨h, hl⟩
    · exact readPropBlock_bad_varint blk h
    · exact readPropBlock_overrun blk r m h hl
  refine ⟨?_, ?_, ?_⟩
  · intro ht h
    have hh : body.length < 2 ∨
        (∃ sp rc r, body = sp :: rc :: r ∧ (1 < sp.toNat ∨ readPropBlock r = none)) := by
      rcases h with h | ⟨sp, rc, h⟩
      · exact Or.inl h
      · exact Or.inr ⟨sp, rc, blk, h, Or.inr hb⟩
    exact reject_body hdr rest body n hv (by rw [ht]; exact readBody_connAck_bad hdr body hh)
  · intro ht h
    have hh : body.length < 2 ∨ ∃ hi lo r, body = hi :: lo :: r ∧ readPropBlock r = none := by
      rcases h with h | ⟨hi, lo, h⟩
      · exact Or.inl h
      · exact Or.inr ⟨hi, lo, blk, h, hb⟩
    have := readBody_subAck_bad hdr body hh
    rcases ht with ht | ht
    · exact reject_body hdr rest body n hv (by rw [ht]; exact this.1)
    · exact reject_body hdr rest body n hv (by rw [ht]; exact this.2)
  · intro ht hne ⟨rc, h⟩
    subst h
    cases blk with
    | nil => exact absurd rfl hne
    | cons x xs =>
      exact reject_body hdr rest _ n hv (by rw [ht]; exact readBody_disconnect_bad_props hdr rc x xs hb)

/-- CONNACK with any of the reserved bits 7–1 of the acknowledge flags set. -/
theorem C08_reject_connack_flags (hdr sp rc : UInt8) (rest r' : Bytes) (n : Nat)
    (ht : hdr.toNat / 16 = MT_ConnAck) (hv : decodeVarint rest = some (n, sp :: rc :: r'))
    (hsp : 1 < sp.toNat) : fromBuffer (hdr :: rest) = none :=
  reject_body hdr rest _ n hv
    (by rw [ht]; exact readBody_connAck_bad hdr _ (Or.inr ⟨sp, rc, r', rfl, Or.inl hsp⟩))

example : fromBuffer [0x20, 0x03, 0x00, 0x00, 0x05] = none ∧ fromBuffer [0x20, 0x03, 0x02, 0x00, 0x00] = none ∧
    fromBuffer [0x90, 0x03, 0x00, 0x01, 0x01] = none ∧ fromBuffer [0xE0, 0x02, 0x00, 0x04] = none := by
  decide

/-- **Invalid UTF-8 topic**: `deserialize_str` checks the topic with `core::str::from_utf8`, so a
PUBLISH whose topic bytes are not well-formed UTF-8 is refused, whatever QoS, flags and rest. -/
theorem C08_reject_invalid_utf8_topic (hdr : UInt8) (rest after topic : Bytes) (n : Nat)
    (ht : hdr.toNat / 16 = MT_Publish)
    (hv : decodeVarint rest = some (n, Spec.encStr topic ++ after))
    (hl : topic.length ≤ 65535) (hu : validUtf8 topic = false) : fromBuffer (hdr :: rest) = none :=
  reject_body hdr rest _ n hv
    (by rw [ht]; exact readBody_publish_topic hdr _ (readStr_invalid_utf8 topic after hl hu))

example : validUtf8 [0xC0, 0xAF] = false ∧ fromBuffer [0x30, 0x05, 0x00, 0x02, 0xC0, 0xAF, 0x00] = none := by
  decide

/-- **Trailing bytes.** For the packet types that carry no payload (everything but PUBLISH, SUBACK,
UNSUBACK): if the body decodes and anything is left over, the packet is refused. -/
theorem C08_reject_trailing (hdr : UInt8) (rest body left : Bytes) (n : Nat) (pkt : Recv)
    (hv : decodeVarint rest = some (n, body))
    (hb : readBody (hdr.toNat / 16) hdr body = some (pkt, left)) (hne : left ≠ [])
    (ht : hdr.toNat / 16 ≠ MT_Publish ∧ hdr.toNat / 16 ≠ MT_SubAck ∧ hdr.toNat / 16 ≠ MT_UnsubAck) :
    fromBuffer (hdr :: rest) = none :=
  reject_trailing hdr rest body left n pkt hv hb hne ht

/-- Concretely: a complete CONNACK, a PUBACK / PUBREC / PUBREL / PUBCOMP or DISCONNECT in the full
shape (behind the shorter shapes one more byte simply reads as the next shape), or a PINGRESP,
followed by at least one more byte — whatever remaining length is written in the header, the
right one included. -/
theorem C08_reject_trailing_garbage (extra : Bytes) (n : Nat) (hn : n ≤ 268435455)
    (hne : extra ≠ []) :
    (∀ sp reason props, (ServerPacket.connAck sp reason props).wf = true →
      fromBuffer (firstByte (.connAck sp reason props) ::
        (Spec.encVarint n ++ (Spec.body (.connAck sp reason props) ++ extra))) = none) ∧
    (∀ kind id rc props, (ServerPacket.ack kind id (.full rc props)).wf = true →
      fromBuffer (firstByte (.ack kind id (.full rc props)) ::
        (Spec.encVarint n ++ (Spec.body (.ack kind id (.full rc props)) ++ extra))) = none) ∧
    (∀ rc props, (ServerPacket.disconnect (.full rc props)).wf = true →
      fromBuffer (firstByte (.disconnect (.full rc props)) ::
        (Spec.encVarint n ++ (Spec.body (.disconnect (.full rc props)) ++ extra))) = none) ∧
    fromBuffer (firstByte .pingResp :: (Spec.encVarint n ++ extra)) = none :=
  ⟨fun sp reason props hwf => reject_trailing_connAck sp reason n props extra hwf hn hne,
   fun kind id rc props hwf => reject_trailing_ack kind id rc n props extra hwf hn hne,
   fun rc props hwf => reject_trailing_disconnect rc n props extra hwf hn hne,
   reject_trailing_pingResp _ _ extra n (by decide) (decodeVarint_encVarint n extra hn) hne⟩

example : fromBuffer [0xD0, 0x01, 0x00] = none ∧ fromBuffer [0x20, 0x04, 0x00, 0x00, 0x00, 0x00] = none ∧
    fromBuffer [0x40, 0x05, 0x00, 0x01, 0x00, 0x00, 0x00] = none := by decide

/-- **Packet larger than the receive buffer** (reader level, reusing C15). If the stream starts
with a complete fixed header (`hl` bytes) announcing a packet of `t > cap` bytes, then for every
way of fragmenting the reads the reader delivers no packet and fails with `MalformedPacket` holding
at most the header — it never commits more than `cap` bytes, and no more than the header: the
error comes as soon as the length is known. The same when the length field has no end after four
bytes. -/
theorem C08_reject_oversize (sched : List Nat) (r : Reader) (stream : Bytes)
    (hd : r.data = []) (hp : r.packetLength = none) :
    (∀ hl t, fixedHeader stream = .complete hl t → r.cap < t →
      readLoop sched r stream = some ([], .malformed (stream.take (min hl r.cap)))) ∧
    (fixedHeader stream = .tooLong →
      readLoop sched r stream = some ([], .malformed (stream.take (min 5 r.cap)))) := by
  constructor
  · intro hl t hfh hbig
    rw [readLoop_eq_frames sched r stream hd hp, frames_oversize r.cap stream hfh hbig]; rfl
  · intro hfh
    rw [readLoop_eq_frames sched r stream hd hp, frames_tooLong r.cap stream hfh]; rfl

/-- In any reader state: once the bytes held contain a complete fixed header that announces more
than the buffer holds, `receive_buffer` fails (and by `C15_reader_safe` the buffer was never
overfilled on the way there). -/
theorem C08_oversize_detected_at_header (r : Reader) (hp : r.packetLength = none) (hl t : Nat)
    (hfh : fixedHeader r.data = .complete hl t) (hbig : r.cap < t) : r.receiveWindow = none :=
  oversize_window_none r hp hfh hbig

/-- A 300-byte PUBLISH into a 64-byte buffer: refused after the three header bytes. -/
example : fixedHeader [0x30, 0xAC, 0x02, 0x00] = .complete 3 303 := by decide

/-- **A rejected packet kills the handle and is not acted upon.** When `take_packet` fails on an
available packet (`from_buffer` refused it), `process_received_packet` returns
`Err(Peer(InvalidPacket))`; the state afterwards is the state before with the reader reset, put
through `handle_disconnect` — `handle_packet` never ran, so no acknowledgement was queued, no
quota or identifier touched —, and the handle is dead. -/
theorem C08_rejected_kills_connection (w : World)
    (ha : w.sess.reader.packetAvailable = true) (hbad : w.sess.takePkt.2 = none) :
    w.processReceivedPacket =
      (({ w with sess := w.sess.takePkt.1 } : World).handleDisconnect, .error .peerInvalid) ∧
    w.sess.takePkt.1.data = w.sess.data ∧ w.sess.takePkt.1.rt = w.sess.rt ∧
    (({ w with sess := w.sess.takePkt.1 } : World).handleDisconnect).live = false :=
  ⟨processReceivedPacket_invalid w ha hbad, (takePkt_rest w.sess).1, (takePkt_rest w.sess).2.1,
   handleDisconnect_live _⟩

/-- `take_packet` fails exactly when `from_buffer` refuses the bytes of the packet. -/
theorem C08_take_fails_iff (s : Session) (l : Nat) (hp : s.reader.packetLength = some l) :
    s.takePkt.2 = none ↔ fromBuffer (s.reader.data.take l) = none :=
  takePkt_none_iff s l hp

/-- Seen from the operations: `poll` / `recv` / `drive` and `connect` return
`Err(Peer(InvalidPacket))` with a dead handle, both for a packet `from_buffer` refuses and for a
`MalformedPacket` from the packet reader (bad remaining length, packet too large). -/
theorem C08_operations_report_invalid_packet (fuel : Nat) (w : World) (outer : Outer) :
    (∀ adv, w.sess.reader.packetAvailable = true → w.sess.takePkt.2 = none →
      World.driveLoop (fuel + 1) w outer adv =
        (({ w with sess := w.sess.takePkt.1 } : World).handleDisconnect).finishErr
          (World.outerName outer) .peerInvalid) ∧
    (w.sess.takePkt.2 = none → World.connectGotPacket w =
        (({ w with sess := w.sess.takePkt.1 } : World).handleDisconnect).finishErr
          "connect" .peerInvalid) ∧
    (∀ deadline yielded, w.sess.reader.packetAvailable = false →
      w.sess.reader.receiveWindow = none →
      World.doWaitRead (fuel + 1) w outer deadline yielded =
        (w.handleDisconnect).finishErr (World.outerName outer) .peerInvalid) ∧
    (w.sess.reader.packetAvailable = false → w.sess.reader.receiveWindow = none →
      World.doConnRead (fuel + 1) w = (w.handleDisconnect).finishErr "connect" .peerInvalid) :=
  ⟨fun adv ha hbad => driveLoop_invalid fuel w outer adv ha hbad,
   fun hbad => connectGotPacket_invalid w hbad,
   fun deadline yielded ha hw => doWaitRead_malformed fuel w outer deadline yielded ha hw,
   fun ha hw => doConnRead_malformed fuel w ha hw⟩

/-- **Totality and no read beyond the packet.** `fromBuffer`, `readBody`, `decodeVarint`,
`readStr`, `takeN`, … are total Lean functions given by pattern matching and finite case analysis
on lists, without `head!` / `get!` / unchecked arithmetic: by construction there is no input on
which the model panics, overflows or indexes out of bounds, and the result depends on nothing but
`buf`. Quantitatively, for an accepted PUBLISH: topic, property block and payload are consecutive,
non-overlapping pieces of `buf` behind at least four header bytes and with at least one byte
between topic and properties, so `topic.length + payload.length + props.length < buf.length`;
and what is accepted has QoS ≤ 2, a well-formed UTF-8 topic, and an identifier exactly when
QoS > 0. -/
theorem C08_total {buf topic props payload : Bytes} {id : Option Nat} {rt d : Bool} {q : Nat}
    (h : fromBuffer buf = some (.publish topic id props payload rt q d)) :
    (∃ pre mid, buf = pre ++ topic ++ mid ++ props ++ payload ∧ 4 ≤ pre.length ∧ 1 ≤ mid.length) ∧
    topic.length + payload.length + props.length < buf.length ∧
    validUtf8 topic = true ∧ q ≤ 2 ∧ (id.isSome = true ↔ 0 < q) := by
  obtain ⟨pre, mid, hb, hp, hm, hu, hq, hid⟩ := fromBuffer_publish_inv h
  refine ⟨⟨pre, mid, hb, hp, hm⟩, ?_, hu, hq, hid⟩
  rw [hb]; simp only [List.length_append]; omega

example : fromBuffer [0x3A, 0x0A, 0x00, 0x01, 0x61, 0x00, 0x07, 0x02, 0x01, 0x01, 0x09, 0x09] =
    some (.publish [0x61] (some 7) [0x01, 0x01] [9, 9] false 1 true) := by decide

/-! ## The oddities listed at the top, as checked facts -/

/-- The remaining length is not compared with the number of bytes that follow. -/
example : fromBuffer [0xD0, 0x05] = some .pingResp := by decide
/-- DUP with QoS 0. -/
example : fromBuffer [0x38, 0x04, 0x00, 0x01, 0x61, 0x00] =
    some (.publish [0x61] none [] [] false 0 true) := by decide
/-- Empty topic, no alias. -/
example : fromBuffer [0x30, 0x03, 0x00, 0x00, 0x00] = some (.publish [] none [] [] false 0 false) := by
  decide
/-- Wildcard and U+0000 in a topic name. -/
example : fromBuffer [0x30, 0x04, 0x00, 0x01, 0x23, 0x00] =
      some (.publish [0x23] none [] [] false 0 false) ∧
    fromBuffer [0x30, 0x04, 0x00, 0x01, 0x00, 0x00] =
      some (.publish [0x00] none [] [] false 0 false) := by decide
/-- Packet identifier 0. -/
example : fromBuffer [0x32, 0x06, 0x00, 0x01, 0x61, 0x00, 0x00, 0x00] =
      some (.publish [0x61] (some 0) [] [] false 1 false) ∧
    fromBuffer [0x40, 0x02, 0x00, 0x00] = some (.pubAck 0 ⟨none, none⟩) := by decide
/-- SUBACK without reason codes. -/
example : fromBuffer [0x90, 0x03, 0x00, 0x01, 0x00] = some (.subAck 1 [] []) := by decide

end Minimq
