import Minimq.Proofs.NoSpinRun
import Minimq.Theorems.C16Fuel
/-
C16 (part) — no busy loop inside `poll()`.

`wait_for_progress` reads from the transport under `with_deadline(next_deadline())`. If that deadline
has already passed when the timer is first polled, the operation wakes itself and is polled again at
once; the model counts these *self-wakes* (`wakes`) and prints `spin` at the 64th in one POLL. The
crate once looped like that for ever (finding F13: `next_ping` had passed while a PINGREQ was
outstanding, and `next_deadline` returned it).

What is proved:

 * **the service pass leaves a fresh deadline** (`C16_service_leaves_fresh_deadline`): when
   `service(now)` neither closed the connection (ping timeout expired) nor failed, and nothing is left
   to send, `next_deadline()` is `None` or strictly later than `now`. So `wait_for_progress` is never
   entered with an expired deadline, and when its timer fires, one more round (close, or queue and
   write the PINGREQ, or wait with a fresh deadline) ends the POLL;
 * **a POLL never wakes itself** (`C16_poll_never_self_wakes`): for an operation that the machine
   itself suspended, `wakes` is 0 after every POLL; for *any* world, even with a hand-made await
   point, it is at most 1 and `spin` is not printed (`C16_poll_at_most_one_self_wake`);
 * **in every execution** `wakes = 0` after every directive (`C16_no_self_wake_in_any_run`);
 * **`spin` in a trace** can only be the other `spin`, the one `go` prints when all its 10000 rounds
   were used up, each of them a POLL that performed a non-starved I/O call and left the operation
   suspended (`C16_spin_only_from_go_bound`, `C16_no_spin_directive`); a program without `go` never
   prints it (`C16_no_spin_in_trace`). That bound *can* be reached, with real progress in every round
   (5000 two-byte packets waiting for one `recv`; see the report) — it is a limit of the harness's
   executor, not a busy loop.

No invariant of reachable worlds is needed beyond "`wait_for_progress` is suspended with
`yielded = true`", which every suspension of the machine satisfies (`FutOk`).
-/
namespace Minimq
open Gen World Fuel NoSpin

/-! ### 1. The deadline handed to `wait_for_progress` -/

/-- **The service pass leaves a fresh deadline.** Let the ping timeout, if one is running, lie in the
future (otherwise `service` closes the connection), let `maybe_queue_pingreq(now)` succeed (otherwise
the operation ends with that error), and let nothing be left to send afterwards. Then
`next_deadline()` is `None` or strictly later than `now`: a running ping timeout is what it returns;
without one, a PINGREQ that was due has just been queued, or is still pending, and then there would be
something to send. -/
theorem C16_service_leaves_fresh_deadline (w w1 : World)
    (ht : ∀ t, w.sess.rt.pingTimeout = some t → w.now < t)
    (hq : w.maybeQueuePingreq w.now = .ok w1) (hn : w1.sess.data.outbound.nextStep = none) :
    ∀ d, w1.sess.rt.nextDeadline = some d → w.now < d := by
  have hto : timedOut w = false := by
    unfold timedOut
    cases hp : w.sess.rt.pingTimeout with
    | none => rfl
    | some t => have := ht t hp; simp only [decide_eq_false_iff_not, ge_iff_le, Nat.not_le]; exact this
  obtain ⟨hs, hnow, _, _⟩ := service_served w w1 hto hq
  intro d hd
  have := hs hn
  rw [hd, hnow] at this
  exact this

/-- …so the `doWaitRead` that `driveAfterService` starts after an idle round has a deadline in the
future, and a pending read suspends it instead of waking it: the invariant `Good`, which every call
reached from an entry point satisfies, says exactly this (`Good (.DWR w _ d false) = Fresh w.now d`),
and one step of any of the thirteen functions preserves it without counting a self-wake. -/
theorem C16_step_keeps_invariant (c : Call) (h : K 0 c) :
    (∃ c', K 0 c' ∧ ∀ m, c.run (m + 1) = c'.run m) ∨ (∃ r, r.wakes = 0 ∧ ∀ m, c.run (m + 1) = r) := by
  cases step2 0 c h with
  | call c' k _ hm => exact .inl ⟨c', k, hm⟩
  | done r _ hw _ hm => exact .inr ⟨r, by omega, hm⟩

/-! ### 2. A POLL never wakes itself -/

/-- **A POLL of an operation the machine suspended never wakes itself**: whatever the world, if the
suspended operation (if any) is at an await point as the machine creates them, then after the POLL the
self-wake counter is 0 — the timer branch "deadline already expired on entry" is never taken. -/
theorem C16_poll_never_self_wakes (w : World) (h : FutOk w) : (World.poll w).wakes = 0 :=
  poll_ok w h

/-- **Any POLL, any world**: at most one self-wake (and that only from a hand-made await point
`waitRead _ d false` with an expired `d`), no `spin` line, and what is left suspended is again an await
point of the machine's making. -/
theorem C16_poll_at_most_one_self_wake (w : World) :
    (World.poll w).wakes ≤ 1 ∧ (∃ new, (World.poll w).out = new ++ w.out ∧ "spin" ∉ new) ∧ FutOk (World.poll w) := by
  obtain ⟨⟨new, e, hn⟩, hw, hf⟩ := poll_any w
  exact ⟨hw, ⟨new, e, fun hm => hn _ hm rfl⟩, hf⟩

/-- **In every execution the self-wake counter is 0 after every directive**, and the suspended
operation is at an await point of the machine's making. -/
theorem C16_no_self_wake_in_any_run (cfg : Cfg) (ds : List Directive) :
    (ds.foldl World.execDirective { sess := Session.new cfg }).wakes = 0 ∧
    FutOk (ds.foldl World.execDirective { sess := Session.new cfg }) := by
  have := (run_WI ds _ (WI_initial cfg)).1
  exact ⟨this.2, this.1⟩

/-! ### 3. The line `spin` -/

/-- **A directive prints `spin` only if it is a `go` that used up all its 10000 rounds** (each round a
POLL with the decision "everything" that performed a non-starved I/O call and left the operation
suspended: `GoBusy`). The invariant `WI` (machine-made await point, no self-wake on record) is kept. -/
theorem C16_no_spin_directive (w : World) (d : Directive) (h : WI w) :
    WI (w.execDirective d) ∧
    ((∃ new, (w.execDirective d).out = new ++ w.out ∧ "spin" ∉ new) ∨ d = .go ∧ GoBusy 10000 w) := by
  obtain ⟨h1, h2⟩ := execDirective_WI w d h
  refine ⟨h1, h2.elim (fun ⟨new, e, hn⟩ => .inl ⟨new, e, fun hm => hn _ hm rfl⟩) .inr⟩

/-- **`spin` in the trace of a program is the round bound of some `go`**: running the lines of a
program from the initial world either never adds `spin`, or some line is a `go` started in a world
from which 10000 POLLs in a row each did I/O and stayed suspended. -/
theorem C16_spin_only_from_go_bound (cfg : Cfg) (ls : List String) :
    (∃ new, (ls.foldl World.exec { sess := Session.new cfg }).out = new ∧ "spin" ∉ new) ∨
    ∃ ls1 l ls2, ls = ls1 ++ l :: ls2 ∧ parseDirective l = .go ∧
      GoBusy 10000 (ls1.foldl World.exec { sess := Session.new cfg }) := by
  rcases (program_WI ls _ (WI_initial cfg)).2 with ⟨new, e, hn⟩ | h
  · exact .inl ⟨_, rfl, by rw [e]; simpa using fun hm => hn _ hm rfl⟩
  · exact .inr h

/-- **A program without `go` never prints `spin`.** -/
theorem C16_no_spin_in_trace (text : String) (hgo : ∀ l ∈ text.splitOn "\n", parseDirective l ≠ .go) :
    "spin" ∉ runProgram text :=
  no_spin_in_runProgram text hgo

/-- Where the other `spin` comes from: `go` out of rounds. -/
example (w : World) : World.goLoop 0 w = w.emit "spin" := rfl

/-! ### Non-vacuity -/

/-- The initial world of every program satisfies the invariant. -/
example (cfg : Cfg) : WI ({ sess := Session.new cfg } : World) := WI_initial cfg

/-- The idle session suspended in `wait_for_progress` (from `C16Fuel.lean`) satisfies `FutOk`… -/
example : FutOk fuelExampleWorld := .inr ⟨_, rfl, rfl⟩

/-- …a hand-made await point with `yielded = false` does not. -/
example : ¬ FutOk { fuelExampleWorld with fut := some (.waitRead .poll (some 0) false) } := by
  intro h
  rcases h with h | ⟨pc, h1, h2⟩
  · simp at h
  · simp only [Option.some.injEq] at h1; subst h1; exact Bool.noConfusion h2

/-- The hypotheses of `C16_service_leaves_fresh_deadline` are satisfiable: a session whose PINGREQ time
lies in the future, nothing queued. -/
example : let w : World := { fuelExampleWorld with
      sess := { fuelExampleWorld.sess with rt := { fuelExampleWorld.sess.rt with nextPing := some 5 } } }
    (∀ t, w.sess.rt.pingTimeout = some t → w.now < t) ∧ w.maybeQueuePingreq w.now = .ok w ∧
    w.sess.data.outbound.nextStep = none ∧ w.sess.rt.nextDeadline = some 5 := by
  refine ⟨fun t h => by simp [fuelExampleWorld, Session.new] at h, rfl, by decide, rfl⟩

end Minimq
