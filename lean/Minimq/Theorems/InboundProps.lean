import Minimq.Proofs.PropsRoundtrip
/-
InboundProps — what the application sees of the properties a broker sent.

Inbound packets keep their property block as raw bytes (`PropertiesData::Encoded`); the application
reads it through `Properties::iter`, `response_topic`, `correlation_data` (`src/properties.rs`), which
run `Property::deserialize` repeatedly over the block. These theorems say that this lazy decoding
inverts the crate's own property serializer: if the block is the serialization of a list `l` of
well-typed properties (`encodeProps l = .ok block`, any of the 27 kinds, any values, any length), the
application sees exactly `l`. For blocks that are not of that form they bound the iteration.

`encodeProps`, `firstVal` and the lemmas are in `Proofs/SpecProps.lean` / `Proofs/PropsRoundtrip.lean`.
-/
namespace Minimq
open Gen

/-- **Writer and reader use the same wire format for every property kind.** What
`impl Serialize for Property` writes after the identifier (`serShape`) is what
`PropertyVisitor::visit_enum` reads (`deShape`), for all 27 kinds. The declared payload type
(`declShape`) agrees with both for every kind except `SubscriptionIdentifier`, which is declared
`u32` but travels as a variable byte integer (so values above 268 435 455 cannot be written; they
are refused with an error, never truncated). -/
theorem InboundProps_shapes (k : PropKind) :
    k.serShape = k.deShape ∧
    ((k.serShape = k.declShape ∧ k.deShape = k.declShape) ↔ k ≠ .SubscriptionIdentifier) :=
  ⟨shapes_ser_eq_de k, shapes_agree_iff k⟩

/-- **Property identifiers are unambiguous.** Looking up the identifier of a kind gives that kind
back and nothing else: the 27 identifiers are pairwise distinct and the table lists each kind once. -/
theorem InboundProps_identifiers (k k' : PropKind) (id : Nat) :
    kindOfId k.id = some k ∧ (kindOfId id = some k ↔ k.id = id) ∧ (k.id = k'.id → k = k') ∧
    k ∈ PropKind.all ∧ PropKind.all.Nodup :=
  ⟨kindOfId_id k, kindOfId_eq_some_iff id k, PropKind.id_injective, PropKind.mem_all k,
    PropKind.all_nodup⟩

/-- **Decoding one property inverts encoding it.** For every well-typed property (any kind, any
value) that the serializer can write, `Property::deserialize` applied to the written bytes followed
by anything returns exactly that property and reports exactly the written length as consumed. -/
theorem InboundProps_decode_one (p : Property) (out rest : Bytes) (hwf : p.wf = true)
    (h : p.encode = .ok out) :
    decodeProp (out ++ rest) = { result := some p, consumed := out.length } :=
  decodeProp_encode p out rest hwf h

/-- **`Properties::iter` on an inbound block yields exactly what the broker put there**: every
property once, in order, with its exact value; no error item and nothing after the last one. -/
theorem InboundProps_iter (l : List Property) (block : Bytes)
    (hwf : ∀ p ∈ l, p.wf = true) (h : encodeProps l = .ok block) :
    (Properties.encoded block).iter = l.map some :=
  iterEncoded_encode l block hwf h

/-- **`response_topic()` is the first Response Topic the broker sent** (`none` if it sent none):
`firstVal .ResponseTopic l` is the value of the first property of that kind in `l`
(`firstVal_eq_some_iff`, `firstVal_eq_none_of_absent`). -/
theorem InboundProps_responseTopic (l : List Property) (block : Bytes)
    (hwf : ∀ p ∈ l, p.wf = true) (h : encodeProps l = .ok block) :
    (Properties.encoded block).responseTopic = firstVal .ResponseTopic l := by
  unfold Properties.responseTopic
  rw [InboundProps_iter l block hwf h]
  exact firstOf_map_some _ l (Or.inl rfl) hwf

/-- **`correlation_data()` is the first Correlation Data the broker sent** (`none` if none). -/
theorem InboundProps_correlationData (l : List Property) (block : Bytes)
    (hwf : ∀ p ∈ l, p.wf = true) (h : encodeProps l = .ok block) :
    (Properties.encoded block).correlationData = firstVal .CorrelationData l := by
  unfold Properties.correlationData
  rw [InboundProps_iter l block hwf h]
  exact firstOf_map_some _ l (Or.inr rfl) hwf

/-- The accessor scan on an already decoded list, for any string- or binary-typed kind. -/
theorem InboundProps_firstOf (k : PropKind) (l : List Property)
    (hk : k.declShape = .str ∨ k.declShape = .bin) (hwf : ∀ p ∈ l, p.wf = true) :
    firstOf k (l.map some) = firstVal k l :=
  firstOf_map_some k l hk hwf

/-- What `firstVal` means, in terms of the list only: the result is `some bs` exactly when `l`
is some properties of other kinds followed by a property of kind `k` with value `bs`; and it is
`none` when no property of kind `k` occurs. -/
theorem InboundProps_firstVal_spec (k : PropKind) (l : List Property) :
    (∀ bs, firstVal k l = some bs ↔
      ∃ l1 l2, l = l1 ++ { kind := k, val := .s bs } :: l2 ∧ ∀ q ∈ l1, q.kind ≠ k) ∧
    ((∀ q ∈ l, q.kind ≠ k) → firstVal k l = none) :=
  ⟨firstVal_eq_some_iff k l, firstVal_eq_none_of_absent k l⟩

/-- **`valid_for` on an inbound block checks exactly the properties the broker sent.** -/
theorem InboundProps_validFor (l : List Property) (block : Bytes) (c : Ctx)
    (hwf : ∀ p ∈ l, p.wf = true) (h : encodeProps l = .ok block) :
    (Properties.encoded block).validFor c = l.all (fun p => p.validFor c) := by
  unfold Properties.validFor
  rw [InboundProps_iter l block hwf h, List.all_map]
  rfl

/-- **Arbitrary (possibly malformed) blocks: the iteration makes progress and ends.** Whatever the
bytes are, each call of `PropertiesIter::next` on a non-empty remainder consumes at least one byte
(the identifier is read first and reading it pops a byte even when it fails) and never more than
there are; hence the iterator yields at most one item per byte of the block, and the fuel the model
gives it (`block.length + 1`) never cuts it short — any larger fuel gives the same list. In
particular `decodeProp` never returns `consumed = 0` on a non-empty input, so the iterator cannot
repeat the same error forever. -/
theorem InboundProps_iter_bounded (block : Bytes) :
    (block ≠ [] → 1 ≤ (decodeProp block).consumed) ∧
    (decodeProp block).consumed ≤ block.length ∧
    ((Properties.encoded block).iter).length ≤ block.length ∧
    (∀ fuel, block.length ≤ fuel → iterEncodedFuel fuel block = iterEncoded block) :=
  ⟨decodeProp_consumed_pos block, decodeProp_consumed_le block, iterEncoded_length block,
    fun fuel h => iterEncoded_eq_fuel fuel block h⟩

/-- One step of the inbound iterator (`PropertiesIter::next` for `Encoded`): on a non-empty
remainder, the decoded head (or an error), then the iteration of what follows the consumed bytes;
on an empty remainder, the end. -/
theorem InboundProps_iter_step (x : UInt8) (xs : Bytes) :
    iterEncoded [] = [] ∧
    iterEncoded (x :: xs) =
      (decodeProp (x :: xs)).result ::
        iterEncoded ((x :: xs).drop (decodeProp (x :: xs)).consumed) :=
  ⟨iterEncoded_nil, iterEncoded_cons x xs⟩

/-! ### Non-vacuity -/

/-- A block with a User Property `("k","v")` (pair), Response Topic `a/b` (string), Correlation
Data `01 02` (binary) and Subscription Identifier 300 (variable byte integer `AC 02`). -/
def InboundProps.sampleList : List Property :=
  [{ kind := .UserProperty, val := .p [0x6b] [0x76] },
   { kind := .ResponseTopic, val := .s [0x61, 0x2f, 0x62] },
   { kind := .CorrelationData, val := .s [1, 2] },
   { kind := .SubscriptionIdentifier, val := .n 300 }]

def InboundProps.sampleBlock : Bytes :=
  [0x26, 0, 1, 0x6b, 0, 1, 0x76, 0x08, 0, 3, 0x61, 0x2f, 0x62, 0x09, 0, 2, 1, 2, 0x0B, 0xAC, 0x02]

/-- The hypotheses of `InboundProps_iter` hold for the sample ... -/
example : (∀ p ∈ InboundProps.sampleList, p.wf = true) ∧
    encodeProps InboundProps.sampleList = .ok InboundProps.sampleBlock := ⟨by decide, rfl⟩

/-- ... and, computed directly (not through the theorem), the iteration returns the four
properties and the accessors their values. -/
example : iterEncoded InboundProps.sampleBlock = InboundProps.sampleList.map some := by decide

example : (Properties.encoded InboundProps.sampleBlock).responseTopic = some [0x61, 0x2f, 0x62] ∧
    (Properties.encoded InboundProps.sampleBlock).correlationData = some [1, 2] ∧
    firstVal .ResponseTopic InboundProps.sampleList = some [0x61, 0x2f, 0x62] ∧
    firstVal .CorrelationData InboundProps.sampleList = some [1, 2] ∧
    firstVal .ContentType InboundProps.sampleList = none := by decide

/-- `InboundProps_decode_one` on the one kind whose declared type differs from its wire shape:
Subscription Identifier 300, followed by other bytes. -/
example : ({ kind := .SubscriptionIdentifier, val := .n 300 } : Property).wf = true ∧
    ({ kind := .SubscriptionIdentifier, val := .n 300 } : Property).encode = .ok [0x0B, 0xAC, 0x02] ∧
    decodeProp ([0x0B, 0xAC, 0x02] ++ [0xFF, 0xFF]) =
      { result := some { kind := .SubscriptionIdentifier, val := .n 300 }, consumed := 3 } :=
  ⟨by decide, rfl, rfl⟩

/-- A Subscription Identifier that is well-typed (`u32`) but not writable as a variable byte
integer is refused by the serializer (so the hypothesis `encode = .ok _` excludes it). -/
example : ({ kind := .SubscriptionIdentifier, val := .n 268435456 } : Property).wf = true ∧
    ({ kind := .SubscriptionIdentifier, val := .n 268435456 } : Property).encode = .error .custom :=
  ⟨by decide, rfl⟩

/-- Malformed blocks (not of the form `encodeProps l`): an unknown identifier `7F` gives one error
item and consumes one byte; a truncated Response Topic consumes its identifier and length field
(three bytes), after which the remaining byte `61` is read as another (unknown) identifier: two
error items; a string with invalid UTF-8 is consumed whole. Each iteration is finite. -/
example : iterEncoded [0x7F] = [none] ∧ (decodeProp [0x7F]).consumed = 1 ∧
    iterEncoded [0x08, 0, 3, 0x61] = [none, none] ∧ (decodeProp [0x08, 0, 3, 0x61]).consumed = 3 ∧
    iterEncoded [0x03, 0, 1, 0xFF, 0x01, 0x01] =
      [none, some { kind := .PayloadFormatIndicator, val := .n 1 }] := by decide

/-- Oddity (matches the Rust iterator): after an error the iteration resumes right after the bytes
the failed read had consumed, so `response_topic()` can return a value found *behind* a malformed
item — here behind the unknown identifier `7F`. -/
example : iterEncoded [0x7F, 0x08, 0, 1, 0x61] = [none, some { kind := .ResponseTopic, val := .s [0x61] }] ∧
    (Properties.encoded [0x7F, 0x08, 0, 1, 0x61]).responseTopic = some [0x61] := by decide

end Minimq
