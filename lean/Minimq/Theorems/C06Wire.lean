import Minimq.Proofs.WireQuota
import Minimq.Theorems.C06
/-
C06, whole machine — the broker's Receive Maximum against what the transport has actually accepted.

`Theorems/C06.lean` proves the accounting inside the session: unless the ghost flag `rt.deficit` is set
(finding F5c), `send_quota + inflightPublishes ≤ max_send_quota`, where `inflightPublishes` counts the
retained PUBLISH entries and the release (PUBREL) entries. This file ties that to the transmission log
of `Theorems/C02Wire.lean`, i.e. to the packets the transport has accepted completely.

What "unresolved" means here. A QoS 1/2 PUBLISH goes out only from the retained queue, and the log
records each complete transmission as an entry tagged `.retained ser id` (`ser` is the ghost serial of
the retained packet, assigned once and never reused; identifiers can be reused after an
acknowledgement, so the serial, not the identifier or the bytes, names the exchange). An exchange
whose PUBLISH has been transmitted is unresolved

 * while its serial is still in the retained queue — neither its PUBACK nor its PUBREC has been
   handled (`Outbound.awaitsAck`: the log entry is a PUBLISH and its serial is still retained), or
 * while it is in the release phase — a successful PUBREC has moved it to the release queue and the
   PUBCOMP has not been handled. Every release entry stands for exactly one such exchange
   (`C03_pubrec_success`: one retained QoS 2 PUBLISH removed, one release entry appended, in the same
   step), so the release phase is counted by the length of the release queue. (A `PendingRelease` has
   no serial yet, so an individual log entry cannot be matched to its release entry across an
   identifier reuse; the count does not need that.)

Proved for every program:
 * `C06_wire_window`: on a live connection whose transport is not marked torn, unless `deficit` is set,
   the PUBLISH entries of this transport's log that still await their acknowledgement plus the release
   entries are at most `max_send_quota`; on such a connection `max_send_quota ≤ 8`, and it is
   min(Receive Maximum, 8) of the CONNACK that was accepted last (`C06_max_quota_set_only_by_connack`);
 * `C06_window_all_transports`: the same bound for any set of distinct unresolved exchanges whose
   PUBLISH was transmitted on whatever transport, with no condition on liveness or torn marks;
 * `C06_sent_publish_resolved_only_by_ack`, `C06_resolution_of_a_publish`: every logged retained packet
   that is no longer retained left the retained queue in one particular earlier step, and for a PUBLISH
   that step handled a PUBACK or PUBREC carrying its identifier, or was the CONNACK of a fresh broker
   session. For the release phase the corresponding fact is
   `C03_pubrel_dropped_only_by_pubcomp_or_fresh_session`.
 * With `deficit` set the wire statement is false, as it must be (F5c): second example below.
-/
namespace Minimq
open Gen World Outbound

/-- `awaitsAck` spelled out: the entry records a retained packet (`.retained t i`), its bytes are a
PUBLISH (type nibble 3), and serial `t` is still in the retained queue. -/
theorem C06_awaitsAck_iff (o : Outbound) (f : LogEntry) :
    o.awaitsAck f = true ↔ ∃ t i, f.tag = .retained t i ∧ isPubPkt f.bytes = true ∧ t ∈ o.retained.map (·.ser) := by
  unfold Outbound.awaitsAck
  cases htag : f.tag with
  | retained t i =>
    simp only [Bool.and_eq_true, List.contains_iff_mem, Tag.retained.injEq]
    constructor
    · intro h; exact ⟨t, i, ⟨rfl, rfl⟩, h.1, h.2⟩
    · rintro ⟨t', i', ⟨rfl, rfl⟩, h1, h2⟩; exact ⟨h1, h2⟩
  | control a => simp
  | release a c => simp
  | unknown => simp

/-- **The window on the wire.** Run any program from the initial world and let `w` be the world it
ends in. If the connection is live, no operation-local write was dropped on the current transport,
and the last CONNACK did not announce a window below the replay set (`deficit = false`, otherwise
F5c), then: the QoS 1/2 PUBLISH packets that the current transport has accepted completely and whose
PUBACK/PUBREC has not been handled, plus the exchanges in the release phase, number at most
`max_send_quota`; a CONNACK has been accepted, and `max_send_quota` is at most the local limit 8
(= min(MAX_RETAINED, MAX_PENDING_RELEASE)). Replays after a resumed reconnect are included: they are
entries of the current transport's log like any other. -/
theorem C06_wire_window (cfg : Cfg) (ds : List Directive) :
    let w := ds.foldl World.execDirective { sess := Session.new cfg }
    let o := w.sess.data.outbound
    w.nets.length ∉ w.tornNets → w.live = true → w.sess.rt.deficit = false →
    (w.curLog.filter o.awaitsAck).length + o.release.length ≤ w.sess.rt.maxSendQuota ∧
    w.sess.data.everAccepted = true ∧ w.sess.rt.maxSendQuota ≤ maxInflight ∧ maxInflight = 8 := by
  intro w o hnt hl hd
  have hinv := run_WInv ds { sess := Session.new cfg } (WInv_init cfg)
  have hhist : Hist w.sess w.log := hrun hclosed_Hist ds { sess := Session.new cfg } (Hist_init cfg)
  have hq : QuotaP w.sess := C06_all_programs cfg ds
  have hacc := hinv.accepted hnt hl
  have hmax : MaxQ w.sess := run_inv closed_MaxQ ds { sess := Session.new cfg } (fun h => by cases h)
  exact ⟨hhist.window_log hq hd List.filter_sublist (hinv.curLog hnt hl).2.p.sorted, hacc, hmax hacc, rfl⟩

/-- **The same bound without conditions on the connection.** After any program, take any list `ts` of
distinct serials such that each is still in the retained queue and the transmission log — on whichever
transport, torn or not, current or earlier — contains a PUBLISH entry with that serial. Unless
`deficit` is set, `ts.length` plus the number of release entries is at most `max_send_quota`. -/
theorem C06_window_all_transports (cfg : Cfg) (ds : List Directive) :
    let w := ds.foldl World.execDirective { sess := Session.new cfg }
    let o := w.sess.data.outbound
    w.sess.rt.deficit = false →
    ∀ ts : List Nat, ts.Nodup →
      (∀ t ∈ ts, t ∈ o.retained.map (·.ser) ∧ ∃ f ∈ w.log, ∃ i, f.tag = .retained t i ∧ isPubPkt f.bytes = true) →
      ts.length + o.release.length ≤ w.sess.rt.maxSendQuota := by
  intro w o hd ts hn hts
  have hhist : Hist w.sess w.log := hrun hclosed_Hist ds { sess := Session.new cfg } (Hist_init cfg)
  refine hhist.window (C06_all_programs cfg ds) hd ts hn (fun t ht => ?_)
  obtain ⟨h1, f, hf, i, htag, hp⟩ := hts t ht
  exact ⟨h1, f, hf, by simp [LogEntry.ser?, htag], by simp [LogEntry.isPublish, htag, hp]⟩

/-- **Who sets `max_send_quota`.** Every change the operations make to the session goes through one of
the primitives of `SessOps.lean` (`Prim`). Each leaves `max_send_quota` as it is, except `activate` on
an acceptable CONNACK, which sets it to `negotiatedQuota block` — min(Receive Maximum, 8) for the last
Receive Maximum property of the CONNACK, 8 if there is none (`C05_negotiated_quota`). So at any moment
after the first accepted CONNACK it is min(Receive Maximum, 8) of the CONNACK accepted last. -/
theorem C06_max_quota_set_only_by_connack {s s' : Session} (h : Prim s s') :
    s'.rt.maxSendQuota = s.rt.maxSendQuota ∨
    ∃ sp block now, s' = (s.activate sp block now).1 ∧ (s.activate sp block now).2 = .ok () ∧
      s'.rt.maxSendQuota = negotiatedQuota block ∧
      negotiatedQuota block = (match lastNum .ReceiveMaximum (iterEncoded block) with
        | some v => min v 8
        | none => 8) := by
  rcases h.maxq with h1 | ⟨sp, block, now, h1, h2, h3⟩
  · exact Or.inl h1
  · exact Or.inr ⟨sp, block, now, h1, h2, h3, rfl⟩

/-- **After the first accepted CONNACK the maximum is within the local limit**, for every program (and
on a live connection whose transport is not marked torn a CONNACK has been accepted: `C06_wire_window`). -/
theorem C06_max_quota_within_local_limit (cfg : Cfg) (ds : List Directive) :
    let s := (ds.foldl World.execDirective { sess := Session.new cfg }).sess
    s.data.everAccepted = true → s.rt.maxSendQuota ≤ 8 := by
  intro s h
  exact (run_inv closed_MaxQ ds { sess := Session.new cfg } (fun h => by cases h) : MaxQ s) h

/-- **A transmitted packet leaves the retained queue only by its acknowledgement or by a fresh
session.** After any program the session has been reached from the initial one by a chain of primitive
steps (`Reach`; the window invariant `QuotaP` holds after each). For every entry `f` of the
transmission log that records a retained packet with serial `t` — on whichever transport — either `t`
is still in the retained queue, or the chain contains one particular step `a → b` in which it left:
`t` is retained in `a`, the arena of `a` holds for it the bytes that `f` records (up to the DUP bit),
and the step handled the acknowledgement that packet was waiting for — it is the first retained entry
with the acknowledged identifier whose header is of the acknowledged kind — or was the CONNACK of a
fresh broker session (`Removal`). -/
theorem C06_sent_publish_resolved_only_by_ack (cfg : Cfg) (ds : List Directive) :
    let w := ds.foldl World.execDirective { sess := Session.new cfg }
    ∀ f ∈ w.log, ∀ t i, f.tag = .retained t i →
      t ∈ w.sess.data.outbound.retained.map (·.ser) ∨
      ∃ a b, Reach QuotaP (Session.new cfg) a ∧ SessStep a b ∧ Reach QuotaP b w.sess ∧
        Removal a b t ∧ ∃ e ∈ a.data.outbound.retained, e.ser = t ∧
          unDup f.bytes = unDup (slice a.data.outbound.buf e.offset e.len) := by
  intro w
  have h : Traced QuotaP (Session.new cfg) w.sess w.log :=
    hrun (hclosed_Traced closed_QuotaP (Session.new cfg)) ds { sess := Session.new cfg } (Traced_init cfg (C06_init cfg))
  exact h.each

/-- **For a PUBLISH that step is its PUBACK, its PUBREC, or a fresh session.** In the situation of the
previous theorem, if the entry is a PUBLISH, the resolving step `a → b` handled an inbound PUBACK or
PUBREC (with any reason code) whose identifier is the identifier the packet had in `a`, or it was the
CONNACK of a fresh broker session. (A PUBACK, or a PUBREC with a failure code, ends the exchange and
gives the quota back; a successful PUBREC appends the release entry in the same step —
`C02_puback_*`, `C03_pubrec`, `C03_pubrec_success`.) -/
theorem C06_resolution_of_a_publish {s0 a b : Session} {f : LogEntry} {t : Nat}
    (hreach : Reach QuotaP s0 a) (h0 : QuotaP s0) (hrem : Removal a b t)
    (hbytes : ∃ e ∈ a.data.outbound.retained, e.ser = t ∧ unDup f.bytes = unDup (slice a.data.outbound.buf e.offset e.len))
    (hp : isPubPkt f.bytes = true) :
    (∃ id rs, (b = (a.handle (.pubAck id rs)).1 ∨ b = (a.handle (.pubRec id rs)).1) ∧
        ∃ e ∈ a.data.outbound.retained, e.ser = t ∧ e.id = id) ∨
    (∃ block now, b = (a.activate false block now).1) :=
  ResolvedAt.publish ⟨hrem, hbytes⟩ (hreach.inv h0).1 hp

/-! ### Non-vacuity -/

def C06Wire_cfg : Cfg :=
  { rx := 64, tx := 128, keepaliveS := 0, expiry := 300, downgrade := false, clientId := [0x63], auth := none, will := none }

def C06Wire_pub (t p : UInt8) : Directive :=
  .publish { qos := 1, retain := false, topic := [t], payload := .bytes [p], props := .slice [] }

/-- CONNACK with Receive Maximum 2; two QoS 1 publishes written and flushed; a third one is refused
(`NotReady`); the PUBACK for the first arrives and is handled by `poll`; the third is accepted now. -/
def C06Wire_prog : List Directive :=
  [.connect, .rx [0x20, 0x06, 0x00, 0x00, 0x03, 0x21, 0x00, 0x02], .go,
   C06Wire_pub 0x74 0x70, .go, C06Wire_pub 0x75 0x71, .go, C06Wire_pub 0x76 0x72,
   .rx [0x40, 0x02, 0x00, 0x01], .poll, .go, C06Wire_pub 0x76 0x72, .go]

/-- The hypotheses hold; three PUBLISH packets (serials 0, 1, 2) are on the wire of this connection,
two of them still await their acknowledgement, and the window is 2. -/
example :
    let w := C06Wire_prog.foldl World.execDirective { sess := Session.new C06Wire_cfg }
    w.nets.length ∉ w.tornNets ∧ w.live = true ∧ w.sess.rt.deficit = false ∧
    sers w.curLog = [0, 1, 2] ∧ (w.curLog.filter w.sess.data.outbound.awaitsAck).length = 2 ∧
    w.sess.data.outbound.retained.map (·.ser) = [1, 2] ∧ w.sess.data.outbound.release.length = 0 ∧
    w.sess.rt.maxSendQuota = 2 ∧ w.sess.rt.sendQuota = 0 := by
  decide +kernel

/-- **F5c on the wire.** Three QoS 1 publishes unacknowledged; the connection is dropped; the session is
resumed by a CONNACK that announces Receive Maximum 2; `poll` replays all three. -/
def C06Wire_progF5c : List Directive :=
  [.connect, .rx [0x20, 0x03, 0x00, 0x00, 0x00], .go,
   C06Wire_pub 0x74 0x70, .go, C06Wire_pub 0x75 0x71, .go, C06Wire_pub 0x76 0x72, .go,
   .drop, .connect, .rx [0x20, 0x06, 0x01, 0x00, 0x03, 0x21, 0x00, 0x02], .go, .poll, .go]

/-- The connection is live and untorn, the ghost flag `deficit` is set, and the bound of
`C06_wire_window` fails: three unacknowledged PUBLISH packets are on the second wire, the window is 2. -/
example :
    let w := C06Wire_progF5c.foldl World.execDirective { sess := Session.new C06Wire_cfg }
    w.nets.length ∉ w.tornNets ∧ w.live = true ∧ w.nets.length = 2 ∧ w.sess.rt.deficit = true ∧
    (w.curLog.filter w.sess.data.outbound.awaitsAck).length = 3 ∧ w.sess.rt.maxSendQuota = 2 := by
  decide +kernel

end Minimq
