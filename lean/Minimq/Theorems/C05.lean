import Minimq.Proofs.SessionFacts
/-
C05 — fresh vs. resumed broker session is mirrored in local state and replay.

`Session.connectPacket` is the CONNECT that `connect_handshake` builds; `Session.activate` is the
processing of a CONNACK with a success reason code (`sp` = its Session Present flag, `block` = its raw
property block). `Prim s s'` is one step of a session primitive: exactly the steps over which the
lifting `Closed` of `Proofs/Lift.lean` quantifies (`C05_prim_is_closed`), i.e. the only ways in which
the operations of `Ops.lean` change the session.

Finding kept explicit (F: reset before validation): `activate` with `sp = false` resets the local
session *before* it validates the CONNACK properties, so a CONNACK that reports no session and is then
rejected leaves `sessionPresent = false` and an emptied session although `connect()` failed
(`C05_finding_reset_before_validation`). The theorems below therefore speak of "a CONNACK reporting
no session" (accepted or not) where the property text says "until the first successful CONNACK".
-/
namespace Minimq
open Gen World Outbound

/-- `Prim` is exactly the step relation of the lifting: a predicate on sessions is `Closed` iff every
`Prim` step preserves it. -/
theorem C05_prim_is_closed (P : Session → Prop) : Closed P ↔ ∀ s s', Prim s s' → P s → P s' := closed_iff_prim P

/-- **The CONNECT packet.** Clean start is asked for exactly while the session has not been
established (`sessionPresent = false`); the client identifier is the session's current one, keep-alive
is the configured one, will and credentials are the configured ones. -/
theorem C05_connect_packet (s : Session) :
    s.connectPacket.cleanStart = !s.data.sessionPresent ∧ s.connectPacket.clientId = s.clientId ∧
    s.connectPacket.keepalive = s.rt.configuredKeepaliveMs / 1000 ∧
    s.connectPacket.props = .slice (connectProps s.reader.cap s.expiry) ∧
    s.connectPacket.will = s.will ∧ s.connectPacket.auth = s.auth := ⟨rfl, rfl, rfl, rfl, rfl, rfl⟩

/-- A new session asks for a clean start with the configured client identifier and keep-alive. -/
theorem C05_first_connect (cfg : Cfg) :
    (Session.new cfg).connectPacket.cleanStart = true ∧ (Session.new cfg).connectPacket.clientId = cfg.clientId ∧
    (Session.new cfg).connectPacket.keepalive = cfg.keepaliveS := by
  refine ⟨rfl, rfl, ?_⟩
  show cfg.keepaliveS * 1000 / 1000 = cfg.keepaliveS
  omega

/-- **CONNACK processing succeeds exactly on an acceptable property block** (`connackBlockOk`: every
property decodes, an Assigned Client Identifier has at most `CLIENT_ID_CAPACITY` bytes, Receive
Maximum is not 0, Maximum QoS is at most 2); the resulting session is `Session.activated`, spelled
out in `Proofs/SessionFacts.lean`; otherwise the error is `Peer.InvalidPacket` and the (possibly
already reset) session is disconnected (`Session.rejected`, which also raises the ghost flag `halfReset`
when `sp = false`). -/
theorem C05_connack_outcome (s : Session) (sp : Bool) (block : Bytes) (now : Nat) :
    ((s.activate sp block now).2 = .ok () ↔ connackBlockOk block) ∧
    (connackBlockOk block → s.activate sp block now = (s.activated sp block now, .ok ())) ∧
    (¬ connackBlockOk block → s.activate sp block now = (s.rejected sp, .error .peerInvalid)) :=
  ⟨activate_ok_iff s sp block now, (activate_eq s sp block now).1, (activate_eq s sp block now).2⟩

/-- `connect()` reports what the CONNACK said: `Connected` for `sp = false`, `Reconnected` for `sp = true`. -/
theorem C05_connect_event (w : World) (sp : Bool) (block : Bytes) (h : connackBlockOk block) :
    (World.activate w sp block).conn = some { live := true, resumed := sp } ∧
    (World.activate w sp block).sess = w.sess.activated sp block w.now ∧
    (World.activate w sp block).lastRes = some (.ok ()) := by
  unfold World.activate
  rw [(activate_eq w.sess sp block w.now).1 h]
  exact ⟨rfl, rfl, rfl⟩

/-- **Once established, the session stays established** across every primitive except the processing
of a CONNACK that reports no session. -/
theorem C05_session_present_stays {s s' : Session} (h : Prim s s') (hp : s.data.sessionPresent = true) :
    s'.data.sessionPresent = true ∨ ∃ block now, s' = (s.activate false block now).1 :=
  h.sessionPresent_stays hp

/-- `sessionPresent` becomes true only in a successful CONNACK… -/
theorem C05_session_present_rises {s s' : Session} (h : Prim s s') (hp : s.data.sessionPresent = false)
    (hp' : s'.data.sessionPresent = true) :
    ∃ sp block now, s' = (s.activate sp block now).1 ∧ (s.activate sp block now).2 = .ok () :=
  h.sessionPresent_rises hp hp'

/-- …so until then every CONNECT asks for a clean start. -/
theorem C05_clean_start_until_first_success {s s' : Session} (h : Prim s s') (hp : s.connectPacket.cleanStart = true)
    (hno : ¬ ∃ sp block now, s' = (s.activate sp block now).1 ∧ (s.activate sp block now).2 = .ok ()) :
    s'.connectPacket.cleanStart = true := by
  have hp0 : s.data.sessionPresent = false := by simpa [Session.connectPacket] using hp
  cases hs : s'.data.sessionPresent with
  | false => simp [Session.connectPacket, hs]
  | true => exact absurd (h.sessionPresent_rises hp0 hs) hno

/-- …and it becomes false again only in a CONNACK that reports no session and is then rejected for
its properties. -/
theorem C05_session_present_falls {s s' : Session} (h : Prim s s') (hp : s.data.sessionPresent = true)
    (hp' : s'.data.sessionPresent = false) :
    ∃ block now, s' = (s.activate false block now).1 ∧ (s.activate false block now).2 = .error .peerInvalid ∧
      ¬ connackBlockOk block :=
  h.sessionPresent_falls hp hp'

/-- **Afterwards CONNECT asks to resume.** Over any run of primitives in which no CONNACK reporting
"no session" is processed, an established session stays established and the next CONNECT has clean
start 0. -/
theorem C05_resume_after_first_success {s s' : Session} (h : ResumingRun s s') (hp : s.data.sessionPresent = true) :
    s'.data.sessionPresent = true ∧ s'.connectPacket.cleanStart = false := by
  have := h.sessionPresent hp
  exact ⟨this, by simp [Session.connectPacket, this]⟩

/-- **Finding (reset before validation).** A CONNACK with Session Present = 0 whose property block is
then rejected (here: Receive Maximum = 0) fails the connect, yet the established session has been
reset: `sessionPresent` is false again (the next CONNECT asks for a clean start), the retained packet
is gone and the generation has moved, invalidating its handle. -/
theorem C05_finding_reset_before_validation :
    let s0 := Session.new { rx := 64, tx := 64, keepaliveS := 0, expiry := 0, downgrade := false, clientId := [], auth := none, will := none }
    let o : Outbound := { s0.data.outbound with retained := [{ id := 1, offset := 0, len := 4, state := .sent, ser := 0 }], used := 4, nextSer := 1 }
    let s : Session := { s0 with data := { s0.data with sessionPresent := true, outbound := o } }
    let r := s.activate false [b 0x21, b 0, b 0] 0
    s.connectPacket.cleanStart = false ∧ (match r.2 with | .error .peerInvalid => true | _ => false) = true ∧
    r.1.data.sessionPresent = false ∧ r.1.connectPacket.cleanStart = true ∧ r.1.data.outbound.retained = [] ∧
    r.1.data.generation = 1 := by
  decide

/-- **The client identifier** changes only in a successful CONNACK that carries an Assigned Client
Identifier property: it becomes the value of the last such property, which has at most
`CLIENT_ID_CAPACITY` bytes. Every other primitive, and every other CONNACK, leaves it alone. -/
theorem C05_client_id {s s' : Session} (h : Prim s s') :
    s'.clientId = s.clientId ∨
    ∃ sp block now cid, s' = (s.activate sp block now).1 ∧ (s.activate sp block now).2 = .ok () ∧
      lastStr .AssignedClientIdentifier (iterEncoded block) = some cid ∧ s'.clientId = cid ∧
      cid.length ≤ CLIENT_ID_CAPACITY :=
  h.clientId_changes

/-- Non-vacuity: a CONNACK carrying Assigned Client Identifier "ab" is accepted and sets the identifier. -/
example :
    let s0 := Session.new { rx := 64, tx := 64, keepaliveS := 0, expiry := 0, downgrade := false, clientId := [], auth := none, will := none }
    let r := s0.activate false [b 0x12, b 0, b 2, b 0x61, b 0x62] 0
    (match r.2 with | .ok () => true | _ => false) = true ∧ r.1.clientId = [b 0x61, b 0x62] ∧ r.1.data.sessionPresent = true := by
  decide

/-- **Fresh broker session** (`sp = false`, accepted): all three queues and the inbound QoS 2
identifiers are emptied, the identifier counter restarts, the generation moves on so that every handle
of the old generation reports `invalidated`, the send quota is min(Receive Maximum, local limit), and
the connection is marked as not resumed. Nothing that was in flight can be transmitted any more:
the queues are where every transmission is taken from. -/
theorem C05_fresh_session (s : Session) (block : Bytes) (now : Nat) (hok : (s.activate false block now).2 = .ok ()) :
    let s' := (s.activate false block now).1
    s'.data.outbound.control = [] ∧ s'.data.outbound.retained = [] ∧ s'.data.outbound.release = [] ∧
    s'.data.pendingServerIds = [] ∧ s'.data.packetId = 1 ∧
    s'.data.generation = (s.data.generation + 1) % 4294967296 ∧ s'.data.generation ≠ s.data.generation ∧
    (∀ op : Op, op.generation = s.data.generation → s'.data.status op = .invalidated) ∧
    s'.rt.sendQuota = negotiatedQuota block ∧ s'.rt.maxSendQuota = negotiatedQuota block ∧
    s'.rt.sessionResumed = false ∧ s'.data.sessionPresent = true ∧ s'.data.outbound.nextStep = none := by
  intro s'
  have hb := (activate_ok_iff s false block now).1 hok
  have hs : s' = s.activated false block now := by
    show (s.activate false block now).1 = _
    rw [(activate_eq s false block now).1 hb]
  rw [hs]
  obtain ⟨h1, h2, h3, h4, h5, h6, h7, h8, h9, h10, h11, h12, _⟩ := activated_fresh s block now
  refine ⟨h1, h2, h3, h4, h5, h6, h7, h8, h9, h10, h11, h12, ?_⟩
  simp only [nextStep, nextStepPrio, h1, h2, h3, List.find?_nil]

/-- The send quota after the CONNACK: Receive Maximum capped by the local limit of 8. -/
theorem C05_negotiated_quota (block : Bytes) :
    negotiatedQuota block = (match lastNum .ReceiveMaximum (iterEncoded block) with
      | some v => min v (min MAX_RETAINED MAX_PENDING_RELEASE)
      | none => min MAX_RETAINED MAX_PENDING_RELEASE) := rfl

/-- **Resumed broker session** (`sp = true`, accepted): the outbound state — the three queues with
their identifiers, order and send states, the arena — the inbound QoS 2 identifiers, the generation and
hence the status of every handle are untouched; the connection is marked as resumed; the send quota is
the negotiated one minus the publishes still in flight. -/
theorem C05_resumed_session (s : Session) (block : Bytes) (now : Nat) (hok : (s.activate true block now).2 = .ok ()) :
    let s' := (s.activate true block now).1
    s'.data.outbound = s.data.outbound ∧ s'.data.pendingServerIds = s.data.pendingServerIds ∧
    s'.data.generation = s.data.generation ∧ s'.data.packetId = s.data.packetId ∧
    (∀ op : Op, s'.data.status op = s.data.status op) ∧
    s'.rt.sessionResumed = true ∧ s'.data.sessionPresent = true ∧
    s'.rt.sendQuota = negotiatedQuota block - s.data.outbound.inflightPublishes ∧
    s'.rt.maxSendQuota = negotiatedQuota block := by
  intro s'
  have hb := (activate_ok_iff s true block now).1 hok
  have hs : s' = s.activated true block now := by
    show (s.activate true block now).1 = _
    rw [(activate_eq s true block now).1 hb]
  rw [hs]
  exact activated_resumed s block now

/-- **`connect` arms the replay.** From any state, after the resets at the top of `connect` every
entry of the three queues waits for its first byte (`.write 0`), with identifiers, reason codes,
positions and order unchanged — except that a queued PINGREQ is dropped (it belonged to the old
connection); encoding CONNECT, clearing the deadlines and reading the CONNACK keep
it that way. (The bytes of the retained packets change only in the DUP bit: C17.) -/
theorem C05_connect_arms_replay (s : Session) :
    s.beginConnect.data.outbound.AllFresh ∧
    s.beginConnect.data.outbound.control.map (·.action) =
      (s.data.outbound.control.map (·.action)).filter (fun a => a.typ ≠ MT_PingReq) ∧
    s.beginConnect.data.outbound.release.map (fun e => (e.id, e.rc)) = s.data.outbound.release.map (fun e => (e.id, e.rc)) ∧
    s.beginConnect.data.outbound.retained.map (fun e => (e.id, e.offset, e.len, e.ser)) =
      s.data.outbound.retained.map (fun e => (e.id, e.offset, e.len, e.ser)) ∧
    (∀ s1 : Session, s1.data.outbound.AllFresh →
      (∀ c, (s1.encode (ε := SerErr) (fun cap _ => encodeConnect cap c)).1.data.outbound.AllFresh) ∧
      s1.clearPing.data.outbound.AllFresh ∧ (∀ bytes, (s1.commit bytes).data.outbound.AllFresh) ∧
      (∀ s' n, s1.window = some (s', n) → s'.data.outbound.AllFresh) ∧ s1.takePkt.1.data.outbound.AllFresh ∧
      (∀ block now, (s1.activate true block now).2 = .ok () → (s1.activate true block now).1.data.outbound.AllFresh)) := by
  obtain ⟨i1, i2, i3⟩ := armReplay_ids s.data.outbound.dropPingreq
  refine ⟨beginConnect_allFresh s, ?_, i2, i3, ?_⟩
  · show s.data.outbound.dropPingreq.armReplay.control.map (·.action) = _
    rw [i1]
    simp only [Outbound.dropPingreq, List.filter_map, Function.comp_def]
  intro s1 h1
  obtain ⟨a, b', c, d, e⟩ := handshake_keeps_allFresh s1 h1
  refine ⟨a, b', c, d, e, ?_⟩
  intro block now hok
  rw [(C05_resumed_session s1 block now hok).1]; exact h1

/-- **Replay order.** With every entry waiting for its first byte, `next_step` hands out the head of
the first non-empty queue: acknowledgements first, then PUBRELs, then the retained PUBLISH /
SUBSCRIBE / UNSUBSCRIBE packets, each queue in its own order. -/
theorem C05_replay_order (o : Outbound) (h : o.AllFresh) :
    o.nextStep =
      match o.control with
      | e :: _ => some (.control e.action (.write 0))
      | [] =>
        match o.release with
        | e :: _ => some (.release e.id e.rc (.write 0))
        | [] =>
          match o.retained with
          | e :: _ => some (.retained e.id e.offset e.len (.write 0))
          | [] => none :=
  nextStep_allFresh o h

/-- **A new request goes behind the replay.** `retain_packet` appends the new packet behind all
retained ones, with a larger serial… -/
theorem C05_new_request_appended (o o' : Outbound) (id off len : Nat) (hser : o.SerInv)
    (h : o.retainPacket id off len = some o') :
    o'.retained = o.retained ++ [{ id := id, offset := off, len := len, state := .write 0, ser := o.nextSer }] ∧
    o'.control = o.control ∧ o'.release = o.release ∧ (∀ x ∈ o.retained, x.ser < o.nextSer) :=
  ⟨(retainPacket_appends o o' id off len h).1, (retainPacket_appends o o' id off len h).2.1,
   (retainPacket_appends o o' id off len h).2.2.1, hser.lt⟩

/-- …and `next_step` hands out a retained packet for its first byte only when every acknowledgement,
every PUBREL and every retained packet enqueued before it (smaller serial, so in particular every
packet that was there to be replayed when the connection was made) has been sent completely and
flushed, and nothing is half-written. A packet that has been sent completely is not handed out again
(`sf_nextStep_not_sent`): so each replayed packet goes out once, before any new identifier-bearing one. -/
theorem C05_replay_before_new (o : Outbound) (hser : o.SerInv) (id off len : Nat)
    (h : o.nextStep = some (.retained id off len (.write 0))) :
    (∀ e ∈ o.control, e.state = .sent) ∧ (∀ e ∈ o.release, e.state = .sent) ∧
    (∃ e ∈ o.retained, e.id = id ∧ e.offset = off ∧ e.len = len ∧ e.state = .write 0 ∧
      ∀ x ∈ o.retained, x.ser < e.ser → x.state = .sent) ∧
    (∀ step, o.nextStep = some step → step.state ≠ .sent) :=
  ⟨(nextStep_retained_fresh o id off len h).1, (nextStep_retained_fresh o id off len h).2.1,
   nextStep_retained_fresh_ser o hser id off len h, fun step hs => sf_nextStep_not_sent o step hs⟩

/-- The serial numbering used above is an invariant of every execution (C17), and serials only grow
along an execution (`Keeps`), so "enqueued before" is meaningful across reconnects. -/
theorem C05_serials_reachable (cfg : Cfg) (ds : List Directive) :
    (ds.foldl World.execDirective { sess := Session.new cfg }).sess.data.outbound.SerInv :=
  (run_inv (closed_ArenaP (Session.new cfg).data.outbound) ds { sess := Session.new cfg }
    ⟨⟨ArenaInv_new cfg.tx, ⟨by simp [Session.new, Outbound.new], by simp [Session.new, Outbound.new]⟩⟩,
      Keeps.refl _, rfl⟩).1.2

/-- Non-vacuity: a replayed SUBSCRIBE (serial 0, already sent again) in front of a new PUBLISH
(serial 1): `next_step` hands out the new packet, and the hypotheses of `C05_replay_before_new` hold. -/
example :
    let o : Outbound := { (Outbound.new 16) with
      retained := [{ id := 1, offset := 0, len := 4, state := .sent, ser := 0 }, { id := 2, offset := 4, len := 5, state := .write 0, ser := 1 }],
      used := 9, nextSer := 2 }
    o.nextStep = some (.retained 2 4 5 (.write 0)) ∧ o.SerInv := by
  refine ⟨by decide, ⟨by simp [Outbound.new], by simp [Outbound.new]⟩⟩

end Minimq
