import Minimq.Proofs.IdsClosed
/-
C07 — packet identifiers in flight are non-zero and pairwise distinct, for histories of any length.

The allocator (`SessionData.nextPacketId`, the repaired `next_packet_id`) is total in the model
because it runs on fuel `MAX_RETAINED + MAX_PENDING_RELEASE + 1`; `C07_allocator_fresh` shows the
fuel is never exhausted (pigeonhole over the 17 candidates) and that the result is free.
`IdInv` is the invariant; it holds initially, after a fresh-session reset, and is preserved by
enqueueing, by every inbound packet, by replay arming and by the send-progress bookkeeping.
-/
namespace Minimq
open Gen Outbound

/-- The identifier handed out is in 1..65535 and is not held by any retained packet or release
entry; only the counter moves. No hypothesis on how far the counter has travelled. -/
theorem C07_allocator_fresh (d : SessionData)
    (hpid : 1 ≤ d.packetId ∧ d.packetId ≤ 65535)
    (hret : d.outbound.retained.length ≤ MAX_RETAINED) (hrel : d.outbound.release.length ≤ MAX_PENDING_RELEASE) :
    let r := d.nextPacketId
    1 ≤ r.2 ∧ r.2 ≤ 65535 ∧ d.outbound.hasRetained r.2 = false ∧ d.outbound.hasPendingRelease r.2 = false ∧
    1 ≤ r.1.packetId ∧ r.1.packetId ≤ 65535 ∧ r.1.outbound = d.outbound ∧ r.1.generation = d.generation ∧
    r.1.pendingServerIds = d.pendingServerIds ∧ r.1.sessionPresent = d.sessionPresent :=
  nextPacketId_fresh d hpid hret hrel

/-- A new session satisfies the invariant… -/
theorem C07_init (cap : Nat) : ({ outbound := Outbound.new cap } : SessionData).IdInv :=
  ⟨IdInv_new cap, by simp⟩

/-- …and so does the state after a fresh-session reset. -/
theorem C07_reset (d : SessionData) : (d.reset).IdInv :=
  ⟨IdInv_clear d.outbound, by simp [SessionData.reset]⟩

/-- Accepting a request (allocate, encode into the arena, retain) keeps it, and the identifier used
is non-zero and not in use. -/
theorem C07_enqueue {ε} (d : SessionData) (h : d.IdInv)
    (enc : Nat → (Nat → Nat → Bytes) → Except ε (Nat × Bytes)) (off len : Nat) (o3 : Outbound)
    (hr : ((d.nextPacketId).1.outbound.encodeAt enc).1.retainPacket (d.nextPacketId).2 off len = some o3) :
    (d.nextPacketId).2 ≠ 0 ∧ (d.nextPacketId).2 ∉ d.outbound.usedIds ∧
    ({ (d.nextPacketId).1 with outbound := o3 } : SessionData).IdInv :=
  enqueue_IdInv d h enc off len o3 hr

/-- A refused request that had already taken an identifier (publish refused with `NotReady` or
`InflightExhausted`) keeps the invariant as well: only the counter moved. -/
theorem C07_refused_allocation (d : SessionData) (h : d.IdInv) : (d.nextPacketId).1.IdInv := by
  have hf := nextPacketId_fresh d h.pid h.out.retCap h.out.relCap
  simp only [] at hf
  obtain ⟨_, _, _, _, h5, h6, h7, _⟩ := hf
  exact ⟨h7 ▸ h.out, ⟨h5, h6⟩⟩

/-- Every inbound packet (acknowledgements of every kind, in any order, stale or duplicated,
publishes, PUBREL) keeps it. -/
theorem C07_inbound (d : SessionData) (r : Runtime) (p : Recv) (h : d.IdInv) :
    (handlePacket d r p).1.IdInv :=
  handlePacket_IdInv d r p h

/-- Replay arming (connect, disconnect) keeps it. -/
theorem C07_armReplay (d : SessionData) (h : d.IdInv) :
    ({ d with outbound := d.outbound.armReplay } : SessionData).IdInv :=
  ⟨IdInv_armReplay h.out, h.pid⟩

/-- **All programs.** After any sequence of API calls, I/O decisions (partial writes, faults, end
of stream), inbound bytes, clock ticks, cancellations, drops and reconnects — of any length — the
identifiers in flight are pairwise distinct and non-zero, both lists are within their capacities and
the counter is in 1..65535. -/
theorem C07_all_programs (cfg : Cfg) (ds : List Directive) :
    (ds.foldl World.execDirective { sess := Session.new cfg }).sess.data.IdInv :=
  run_inv closed_IdInv ds { sess := Session.new cfg } (C07_init cfg.tx)

/-- …so in every reachable state the next identifier handed out is non-zero and not in use. -/
theorem C07_every_allocation_is_fresh (cfg : Cfg) (ds : List Directive) :
    let d := (ds.foldl World.execDirective { sess := Session.new cfg }).sess.data
    d.nextPacketId.2 ≠ 0 ∧ d.nextPacketId.2 ∉ d.outbound.usedIds := by
  intro d
  have h := C07_all_programs cfg ds
  have hf := nextPacketId_fresh d h.pid h.out.retCap h.out.relCap
  simp only [] at hf
  refine ⟨by omega, ?_⟩
  rw [usedIds_mem]; simp [hf.2.2.1, hf.2.2.2.1]

/-- Non-vacuity: the counter at its last value, identifier 1 still in flight in the release list and
identifiers 65535 and 2 retained — the allocator must skip three candidates. -/
example : (({ packetId := 65535,
              outbound := { (Outbound.new 64) with
                retained := [{ id := 65535, offset := 0, len := 4, state := .sent }, { id := 2, offset := 4, len := 4, state := .sent }],
                release := [{ id := 1, rc := 0, state := .sent }] } } : SessionData).nextPacketId).2 = 3 := by
  decide

end Minimq
