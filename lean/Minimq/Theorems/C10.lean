import Minimq.Proofs.SessionFacts
/-
C10 — keep-alive: PINGREQ cadence and dead-peer detection follow the negotiated time.

Times: `World.now`, `Runtime.nextPing`, `Runtime.pingTimeout` are in µs; `Runtime.keepaliveMs` and
`ROUND_TRIP_TIMEOUT_MS` (= 5000) in ms. `Session.activate` is the processing of an accepted CONNACK,
`Session.completeFlush pkt now` is `complete_flush`, called when the flush of a queued packet has
succeeded — with the time `now` at which the outbound step that sent the packet was *started*
(`service(now)` → `perform_outbound_step(step, now)`), not the time at which the flush completed.

Findings kept explicit:
* (cadence) while a ping timeout is running no further PINGREQ is queued
  (`C10_no_pingreq_while_waiting`); with a keep-alive below 2 × ROUND_TRIP the next PINGREQ time falls
  before the timeout, so the gap between client packets can exceed the keep-alive
  (`C10_finding_gap_exceeds_keepalive`).
* (timeout origin) the timeout is measured from the start of the outbound step that sent the PINGREQ,
  so if writing/flushing the PINGREQ itself is slow the timeout can fire less than ROUND_TRIP after
  the PINGREQ left (`C10_timeout_origin` states exactly what is true).
* (stale PINGREQ) a PINGREQ queued but not completely flushed before a disconnect used to stay in the
  control queue and was replayed on the next connection, even under keep-alive 0: finding F22, repaired
  in the crate (`arm_replay` drops it); `C10_no_stale_pingreq` states the repaired behaviour.
-/
namespace Minimq
open Gen World Outbound

/-- **Effective keep-alive.** After an accepted CONNACK the keep-alive of the connection is the
broker's Server Keep Alive (seconds → ms; the last such property wins) if there is one, otherwise the
configured value; the configured value itself never changes. -/
theorem C10_effective_keepalive (s : Session) (sp : Bool) (block : Bytes) (now : Nat)
    (hok : (s.activate sp block now).2 = .ok ()) :
    (s.activate sp block now).1.rt.keepaliveMs =
      (match lastNum .ServerKeepAlive (iterEncoded block) with
       | some v => v * 1000
       | none => s.rt.configuredKeepaliveMs) ∧
    (s.activate sp block now).1.rt.configuredKeepaliveMs = s.rt.configuredKeepaliveMs := by
  have hb := (activate_ok_iff s sp block now).1 hok
  rw [(activate_eq s sp block now).1 hb]
  exact ⟨(activated_keepalive s sp block now).1, (activated_keepalive s sp block now).2.1⟩

/-- What "the last Server Keep Alive" means: the one after which no other follows; none at all if no
item is one. -/
theorem C10_last_server_keepalive (pre post : List (Option Property)) (x : Option Property) (v : Nat)
    (hx : numOf .ServerKeepAlive x = some v) (hpost : ∀ it ∈ post, numOf .ServerKeepAlive it = none) :
    lastNum .ServerKeepAlive (pre ++ x :: post) = some v ∧
    (∀ items : List (Option Property), (∀ it ∈ items, numOf .ServerKeepAlive it = none) →
      lastNum .ServerKeepAlive items = none) :=
  ⟨lastNum_append _ pre post x v hx hpost, fun _ h => lastNum_none h⟩

/-- Non-vacuity: a CONNACK with Server Keep Alive = 7 s on a session configured for 60 s. -/
example :
    let s0 := Session.new { rx := 64, tx := 64, keepaliveS := 60, expiry := 0, downgrade := false, clientId := [], auth := none, will := none }
    let r := s0.activate false [b 0x13, b 0, b 7] 1000
    (match r.2 with | .ok () => true | _ => false) = true ∧ r.1.rt.keepaliveMs = 7000 ∧
    r.1.rt.configuredKeepaliveMs = 60000 ∧ r.1.rt.nextPing = some (1000 + 3500 * 1000) ∧
    (s0.activate false [] 1000).1.rt.keepaliveMs = 60000 ∧ (s0.activate false [] 1000).1.rt.nextPing = some (1000 + 55000 * 1000) := by
  decide

/-- **The PINGREQ interval.** There is none iff the keep-alive is 0; otherwise it is positive, at most
the keep-alive, and leaves exactly min(ROUND_TRIP, keep-alive / 2) of the keep-alive as slack:
keep-alive − 5 s from 10 s upwards, half the keep-alive (rounded up) below. -/
theorem C10_send_interval (r : Runtime) :
    (r.keepaliveSendInterval = none ↔ r.keepaliveMs = 0) ∧
    (∀ i, r.keepaliveSendInterval = some i →
      0 < i ∧ i ≤ r.keepaliveMs ∧ i + min ROUND_TRIP_TIMEOUT_MS (r.keepaliveMs / 2) = r.keepaliveMs ∧
      (2 * ROUND_TRIP_TIMEOUT_MS ≤ r.keepaliveMs → i = r.keepaliveMs - ROUND_TRIP_TIMEOUT_MS) ∧
      (r.keepaliveMs < 2 * ROUND_TRIP_TIMEOUT_MS → i = r.keepaliveMs - r.keepaliveMs / 2)) :=
  ⟨keepaliveSendInterval_none_iff r, fun i h => (keepaliveSendInterval_some r i h).2⟩

/-- **Every completed client packet re-arms the PINGREQ timer**: `complete_flush` (queued packets),
the completion of a QoS 0 PUBLISH (`noteActivity`) and an accepted CONNACK set
`nextPing = now + interval` (µs), or `none` when the keep-alive is 0. -/
theorem C10_timer_rearmed (s : Session) (now : Nat) :
    (∀ pkt, (s.completeFlush pkt now).rt.nextPing = s.rt.keepaliveSendInterval.map (fun i => now + i * 1000) ∧
      (s.completeFlush pkt now).rt.keepaliveMs = s.rt.keepaliveMs) ∧
    ((s.noteActivity now).rt.nextPing = s.rt.keepaliveSendInterval.map (fun i => now + i * 1000) ∧
      (s.noteActivity now).rt.keepaliveMs = s.rt.keepaliveMs) ∧
    (∀ sp block, (s.activate sp block now).2 = .ok () →
      (s.activate sp block now).1.rt.nextPing =
        (s.activate sp block now).1.rt.keepaliveSendInterval.map (fun i => now + i * 1000) ∧
      (s.activate sp block now).1.rt.pingTimeout = none) := by
  refine ⟨fun pkt => ⟨(completeFlush_rt s pkt now).1, (completeFlush_rt s pkt now).2.1⟩,
    ⟨(noteActivity_rt s now).1, (noteActivity_rt s now).2.1⟩, ?_⟩
  intro sp block hok
  have hb := (activate_ok_iff s sp block now).1 hok
  rw [(activate_eq s sp block now).1 hb]
  exact ⟨(activated_keepalive s sp block now).2.2.1, (activated_keepalive s sp block now).2.2.2⟩

/-- So the next PINGREQ becomes due min(ROUND_TRIP, keep-alive/2) before the keep-alive, counted
from the `now` of the last completed packet, would run out. -/
theorem C10_pingreq_due_before_keepalive (s : Session) (pkt : Flushed) (now : Nat) (hka : s.rt.keepaliveMs ≠ 0) :
    ∃ np, (s.completeFlush pkt now).rt.nextPing = some np ∧ now < np ∧
      np + min ROUND_TRIP_TIMEOUT_MS (s.rt.keepaliveMs / 2) * 1000 = now + s.rt.keepaliveMs * 1000 := by
  obtain ⟨h1, _, _⟩ := completeFlush_rt s pkt now
  rw [keepaliveSendInterval_of_pos _ hka] at h1
  refine ⟨now + (s.rt.keepaliveMs - min ROUND_TRIP_TIMEOUT_MS (s.rt.keepaliveMs / 2)) * 1000, h1, ?_, ?_⟩
  · rw [RT_val]; omega
  · rw [RT_val]; omega

/-- **A keep-alive of zero sends no pings.** In every reachable state, keep-alive 0 means there is no
PINGREQ timer, and `maybe_queue_pingreq` then leaves the session alone whatever the time. (The
invariant is "keep-alive 0 → no timer"; the converse is false: `connect` clears the timer.) -/
theorem C10_zero_keepalive_no_pings (cfg : Cfg) (ds : List Directive) (now : Nat) :
    let s := (ds.foldl World.execDirective { sess := Session.new cfg }).sess
    s.rt.keepaliveMs = 0 → s.rt.nextPing = none ∧ s.queuePing now = .ok s := by
  intro s h0
  have hinv : KaInv s := run_inv closed_KaInv ds { sess := Session.new cfg } (fun _ => rfl)
  exact ⟨hinv h0, queuePing_no_keepalive s now (hinv h0)⟩

/-- **When a PINGREQ is queued.** `maybe_queue_pingreq(now)` appends a PINGREQ to the control queue
iff the PINGREQ time has come (`nextPing ≤ now`), no ping timeout is running and no PINGREQ is already
pending — provided the 2-byte packet is within the broker's Maximum Packet Size (else
`PacketTooLarge`) and the control queue has room (else `InflightExhausted`). In every other case the
session is left exactly as it is. -/
theorem C10_queue_pingreq (s : Session) (now : Nat) :
    (¬ s.pingWanted now → s.queuePing now = .ok s) ∧
    (s.pingWanted now →
      (s.rt.packetTooLarge 2 = true → s.queuePing now = .error .packetTooLarge) ∧
      (s.rt.packetTooLarge 2 = false → MAX_PENDING_CONTROL ≤ s.data.outbound.control.length →
        s.queuePing now = .error .inflightExhausted) ∧
      (s.rt.packetTooLarge 2 = false → s.data.outbound.control.length < MAX_PENDING_CONTROL →
        s.queuePing now = .ok (s.setOutbound { s.data.outbound with
          control := s.data.outbound.control ++ [{ action := ControlAction.pingReq, state := .write 0 }] }))) ∧
    (s.pingWanted now ↔ s.rt.pingTimeout = none ∧ (∃ np, s.rt.nextPing = some np ∧ np ≤ now) ∧
      s.data.outbound.hasPendingPingreq = false) :=
  ⟨(queuePing_spec s now).1, (queuePing_spec s now).2, Iff.rfl⟩

/-- Finding (cadence): while a ping timeout is running, nothing is queued, however late it is. -/
theorem C10_no_pingreq_while_waiting (s : Session) (now t : Nat) (h : s.rt.pingTimeout = some t) :
    s.queuePing now = .ok s := queuePing_while_waiting s now t h

/-- Finding, concretely: keep-alive 2 s. A PINGREQ is completed at time 0; the next PINGREQ time is
1 s, the timeout 5 s. At 3 s — a full second after the keep-alive ran out — no PINGREQ is queued and
the timeout has not fired: the client is silent for longer than the keep-alive. -/
theorem C10_finding_gap_exceeds_keepalive :
    let s0 := Session.new { rx := 64, tx := 64, keepaliveS := 2, expiry := 0, downgrade := false, clientId := [], auth := none, will := none }
    let s1 := s0.completeFlush (.control ControlAction.pingReq) 0
    s1.rt.keepaliveMs = 2000 ∧ s1.rt.nextPing = some 1000000 ∧ s1.rt.pingTimeout = some 5000000 ∧
    s1.queuePing 3000000 = .ok s1 := by
  intro s0 s1
  have h3 : s1.rt.pingTimeout = some 5000000 := by decide
  exact ⟨by decide, by decide, h3, queuePing_while_waiting s1 3000000 5000000 h3⟩

/-- **Ping-timeout bookkeeping.** Completing the flush of a PINGREQ starts the timeout at
`now + ROUND_TRIP` (µs); completing any other packet leaves it alone; PINGRESP clears it (and changes
nothing else); `next_deadline` is the timeout while one is running and the PINGREQ time otherwise. -/
theorem C10_ping_timeout_bookkeeping (s : Session) (now : Nat) :
    (∀ a : ControlAction, a.typ = MT_PingReq →
      (s.completeFlush (.control a) now).rt.pingTimeout = some (now + ROUND_TRIP_TIMEOUT_MS * 1000)) ∧
    (∀ a : ControlAction, a.typ ≠ MT_PingReq → (s.completeFlush (.control a) now).rt.pingTimeout = s.rt.pingTimeout) ∧
    (∀ id, (s.completeFlush (.release id) now).rt.pingTimeout = s.rt.pingTimeout ∧
      (s.completeFlush (.retained id) now).rt.pingTimeout = s.rt.pingTimeout) ∧
    handlePacket s.data s.rt .pingResp = (s.data, { s.rt with pingTimeout := none }, .ok false) ∧
    (∀ t, s.rt.pingTimeout = some t → s.rt.nextDeadline = some t) ∧
    (s.rt.pingTimeout = none → s.rt.nextDeadline = s.rt.nextPing) := by
  refine ⟨?_, ?_, ?_, rfl, (nextDeadline_spec s.rt).1, (nextDeadline_spec s.rt).2⟩
  · intro a ha; rw [(completeFlush_rt s (.control a) now).2.2]; simp [ha]
  · intro a ha; rw [(completeFlush_rt s (.control a) now).2.2]; simp [ha]
  · intro id; exact ⟨(completeFlush_rt s (.release id) now).2.2, (completeFlush_rt s (.retained id) now).2.2⟩

/-- **Where a timeout value comes from.** Across every session primitive a running ping timeout `t` was
either already running with the same value, or was started by completing the flush of a PINGREQ, as
`now + ROUND_TRIP` for the `now` handed to `complete_flush`. -/
theorem C10_timeout_origin {s s' : Session} (h : Prim s s') (t : Nat) (ht : s'.rt.pingTimeout = some t) :
    s.rt.pingTimeout = some t ∨
    ∃ a now, a.typ = MT_PingReq ∧ s' = s.completeFlush (.control a) now ∧ t = now + ROUND_TRIP_TIMEOUT_MS * 1000 :=
  h.pingTimeout_origin t ht

/-- **Dead-peer detection.** `service(now)` at the head of the `drive_packet` loop ends the wait with
`Disconnected` (and kills the handle) when a ping timeout `t ≤ now` is running… -/
theorem C10_timeout_fires (fuel : Nat) (w : World) (outer : Outer) (adv : Bool) (t : Nat)
    (hav : w.sess.reader.packetAvailable = false) (ht : w.sess.rt.pingTimeout = some t) (hle : t ≤ w.now) :
    driveLoop (fuel + 1) w outer adv = (w.handleDisconnect).finishErr (outerName outer) .disconnected ∧
    (driveLoop (fuel + 1) w outer adv).live = false ∧
    (driveLoop (fuel + 1) w outer adv).lastRes = some (.error .disconnected) := by
  rw [driveLoop_timeout fuel w outer adv t hav ht hle]
  exact ⟨rfl, by simp, rfl⟩

/-- …and only then: when no timeout is running, or the running one lies in the future, `service` does
not take that branch but goes on to queue a PINGREQ if due and to perform the next outbound step. In
particular not earlier than ROUND_TRIP after the `now` of the PINGREQ's outbound step
(`C10_timeout_origin`), and never once a PINGRESP has cleared the timeout. -/
theorem C10_timeout_only_when_expired (fuel : Nat) (w : World) (outer : Outer) (adv : Bool)
    (hav : w.sess.reader.packetAvailable = false) (hno : ∀ t, w.sess.rt.pingTimeout = some t → w.now < t) :
    driveLoop (fuel + 1) w outer adv =
      match w.maybeQueuePingreq w.now with
      | .error e => w.finishErr (outerName outer) e
      | .ok w' =>
        match w'.sess.data.outbound.nextStep with
        | none => driveAfterService fuel w' outer adv
        | some step => performStep fuel w' (.drive adv outer) step w.now :=
  driveLoop_no_timeout fuel w outer adv hav hno

/-- A PINGRESP received in time: afterwards no timeout is running, so the hypothesis of
`C10_timeout_only_when_expired` holds at every later time until another PINGREQ has been flushed. -/
theorem C10_pingresp_clears (s : Session) :
    (s.handle .pingResp).1.rt.pingTimeout = none ∧ (s.handle .pingResp).1.rt.nextPing = s.rt.nextPing ∧
    (s.handle .pingResp).1.rt.keepaliveMs = s.rt.keepaliveMs ∧ (s.handle .pingResp).2 = .ok false ∧
    (s.handle .pingResp).1.data = s.data :=
  ⟨rfl, rfl, rfl, rfl, rfl⟩

/-- **No stale PINGREQ.** A PINGREQ that was queued but not completely flushed when the connection
broke is dropped by `arm_replay` (disconnect and connect): the next connection starts with no
PINGREQ in its control queue, whatever keep-alive it negotiates. (Before the repair recorded as
`fixed: F22` it was re-armed and became the first packet of the next connection, also under a
negotiated keep-alive of zero.) -/
theorem C10_no_stale_pingreq (o : Outbound) :
    (∀ e ∈ o.rearm.control, e.action.typ ≠ MT_PingReq) ∧ o.rearm.hasPendingPingreq = false := by
  have h : ∀ e ∈ o.rearm.control, e.action.typ ≠ MT_PingReq := by
    intro e he
    unfold Outbound.rearm Outbound.armReplay at he
    split at he
    · simp only [Outbound.dropPingreq, List.mem_filter] at he
      simpa using he.2
    · simp only [Outbound.markRetainedDup, List.mem_map] at he
      obtain ⟨x, hx, rfl⟩ := he
      simp only [Outbound.dropPingreq, List.mem_filter] at hx
      simpa using hx.2
  refine ⟨h, ?_⟩
  unfold Outbound.hasPendingPingreq
  rw [List.any_eq_false]
  intro e he
  have := h e he
  simp [this]

/-- The F22 witness after the repair: the stale PINGREQ is gone and nothing is sent under the
negotiated keep-alive of zero. -/
example :
    let s0 := Session.new { rx := 64, tx := 64, keepaliveS := 60, expiry := 0, downgrade := false, clientId := [], auth := none, will := none }
    let o : Outbound := { s0.data.outbound with control := [{ action := ControlAction.pingReq, state := .flush }] }
    let s : Session := { s0 with data := { s0.data with sessionPresent := true, outbound := o } }
    let s' := (s.handleDisconnect.beginConnect.activate true [b 0x13, b 0, b 0] 0).1
    s'.rt.keepaliveMs = 0 ∧ s'.rt.nextPing = none ∧ s'.data.outbound.nextStep = none := by
  decide

end Minimq
