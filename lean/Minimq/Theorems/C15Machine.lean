import Minimq.Proofs.ReadMachine
/-
C15, read half, for the machine — "for a given inbound byte stream and application program, the
delivered messages, the operation results and the outbound byte stream are identical for every way
of splitting the inbound stream across read() calls".

Setting. The inbound stream is `Net.rx` of the current transport. A `poll` / `recv` / `drive`
suspended in `read_packet` (`Pc.waitRead outer deadline yielded`) is resumed by the directive `d k`
(`execDirective`): one POLL with the single I/O decision "read at most `k` bytes" (`k = 250`: as much
as the window allows). The packet reader offers a window of one byte while the length is unknown,
so even whole-window decisions need two or three POLLs per packet.

What is proved.
* `C15M_trace_write_only`: no directive ever looks at the trace already printed. Worlds that differ
  only in their traces stay so, and print the same from then on (`Sim.exec`).
* `C15M_one_packet`: `readPacket ks W` — feed the read decisions `ks` to the suspended read up to and
  including the one that ends it — is `W.afterPacket outer dl` plus read lines in the trace, for
  every admissible `ks`. `afterPacket` is a function of `W` alone: by the framing specification
  `frame1` (C15 reader level) either `drive_packet` entered with exactly the next packet in the
  reader and exactly the rest in the transport, or `Peer(InvalidPacket)` on a dead handle, or the
  same read suspended again with all bytes held.
* `C15M_fragmentation_independent`: hence two fragmentations give worlds that agree on session
  (reader included), transports (same wire, same remaining `rx`), connection, handles, last result,
  transmission log, suspended operation, clock, wake count; their traces are the same lines printed
  by the handling of the packet, then the read lines of each run, then the old trace.
* `C15M_stream`: a whole program — any directives, the same in both runs (operations re-issued,
  write / flush decisions, ticks, more inbound bytes), between the reads of the packets, each packet
  read under two different fragmentations — gives `Sim`ilar worlds. Write decisions are simply
  part of the common directives (`Seg.same (.d 250)`, or any other value: the same in both runs).

Hypotheses, and what happens outside them.
* `DeadlineOK W.now dl`: the wait has no deadline or it is in the future, and no `tick` occurs
  between the read decisions of one packet (ticks between packets are ordinary common directives).
  Neither `yielded` nor `wakes` matters then: they are only consulted once the deadline is reached.
  If the deadline *is* reached, the first pending read makes the operation leave `read_packet` for
  the drive loop (PINGREQ, time-out) with the packet half read; the following decisions then go to
  writes. That is not a counterexample to C15 but it is outside `readPacket`, which only describes
  decisions consumed by reads.
* `Waiting W.sess.reader W.curNet.rx`: the reader is as `receive_buffer` leaves it when it has to
  wait, consistent with the stream. At a packet boundary (`data = []`, length unknown, capacity ≥ 1)
  this holds (`C15M_boundary_waits`); `readsOKb` / `admissibleb` are the decidable form used in the
  examples. It is kept by every partial read (`C15M_partial_read`).
* at least as many decisions as bytes (`rx.length ≤ ks.length`): every decision reads at least one
  byte; fewer are used if they read more.
-/
namespace Minimq
open Gen World

/-- **The trace is write-only.** Every directive does to a world with further old trace lines
exactly what it does without them; the old lines stay at the old end. The thirteen machine
functions, `poll`, `go`, `connect`, the operations: none reads `World.out`. -/
theorem C15M_trace_write_only (ds : List Directive) (w : World) (o : List String) :
    ds.foldl World.execDirective (w.addOld o) = (ds.foldl World.execDirective w).addOld o :=
  run_addOld ds w o

/-- A reader at a packet boundary with room for one byte is `Waiting`, whatever the transport has. -/
theorem C15M_boundary_waits (r : Reader) (rx : Bytes) (hd : r.data = []) (hp : r.packetLength = none)
    (hc : 1 ≤ r.cap) : Waiting r rx :=
  Waiting_fresh r rx hd hp hc

/-- **A read decision that does not complete the packet.** `doWaitRead` commits the `c` bytes and
loops; the next `read` has no decision left and the operation suspends at
`waitRead outer deadline true`; only the reader (holding `c` more bytes, probed), the transport
(`c` bytes shorter) and the trace (`r n c`, `rp n`) have changed, and the reader is `Waiting` again. -/
theorem C15M_partial_read (W : World) (outer : Outer) (dl : Option Nat) (y : Bool) (k : Nat)
    (hfut : W.fut = some (.waitRead outer dl y)) (hdl : DeadlineOK W.now dl)
    (hwait : Waiting W.sess.reader W.curNet.rx) (hne : W.curNet.rx ≠ []) (hk1 : 1 ≤ k) (hk : k ≤ 250)
    (hkind : readKind W.sess.reader W.curNet.rx (W.readCount k) = .more) :
    W.execDirective (.d k) =
      W.withRead (W.sess.reader.holding (W.sess.reader.data ++ W.curNet.rx.take (W.readCount k)))
        (W.curNet.rx.drop (W.readCount k)) [W.rpLine, W.rLine (W.readCount k)]
        (some (.waitRead outer dl true)) ∧
    Waiting (W.sess.reader.holding (W.sess.reader.data ++ W.curNet.rx.take (W.readCount k)))
      (W.curNet.rx.drop (W.readCount k)) :=
  let h := d_more W outer dl y k hfut hdl hwait hne hk1 hk hkind
  ⟨h.1, h.2.1⟩

/-- **A read decision that completes the packet**: `drive_packet` is entered, in the same POLL and
with the decision used up, in the world where the reader holds exactly the next packet of the
framing specification and the transport exactly the rest — never a byte of the next packet. -/
theorem C15M_completing_read (W : World) (outer : Outer) (dl : Option Nat) (y : Bool) (k : Nat)
    (hfut : W.fut = some (.waitRead outer dl y)) (hwait : Waiting W.sess.reader W.curNet.rx)
    (hne : W.curNet.rx ≠ []) (hk1 : 1 ≤ k) (hk : k ≤ 250)
    (hkind : readKind W.sess.reader W.curNet.rx (W.readCount k) = .packet) :
    frame1 W.sess.reader.cap (W.sess.reader.data ++ W.curNet.rx) =
      .packet (W.sess.reader.data ++ W.curNet.rx.take (W.readCount k)) (W.curNet.rx.drop (W.readCount k)) ∧
    W.execDirective (.d k) =
      { driveEnter 3998
          (W.withRead (W.sess.reader.packetOf (W.sess.reader.data ++ W.curNet.rx.take (W.readCount k)))
            (W.curNet.rx.drop (W.readCount k)) [W.rLine (W.readCount k)] none) outer with slot := none } :=
  d_packet W outer dl y k hfut hwait hne hk1 hk hkind

/-- **One packet, any fragmentation.** For every list of read decisions (each 1 … 250, at least as
many as there are bytes), reading the next packet ends in `W.afterPacket outer dl` — which does not
mention the decisions — with the read lines `io` and the old trace behind what `afterPacket`
printed. -/
theorem C15M_one_packet (ks : List Nat) (W : World) (outer : Outer) (dl : Option Nat) (y : Bool)
    (hfut : W.fut = some (.waitRead outer dl y)) (hdl : DeadlineOK W.now dl)
    (hwait : Waiting W.sess.reader W.curNet.rx) (hne : W.curNet.rx ≠ [])
    (hks : ∀ k ∈ ks, 1 ≤ k ∧ k ≤ 250) (hlen : W.curNet.rx.length ≤ ks.length) :
    ∃ io, IoLines W io ∧ readPacket ks W = (W.afterPacket outer dl).addOld (io ++ W.out) :=
  readPacket_eq ks W outer dl y hfut hdl hwait hne hks hlen

/-- `readPacket ks W` is `W` after a prefix of the directives `d k₁, d k₂, …` — the decisions up to
and including the one that ends the reading of the packet. -/
theorem C15M_readPacket_is_a_prefix (ks : List Nat) (W : World) : ∃ n, n ≤ ks.length ∧
    readPacket ks W = (ks.take n).foldl (fun w k => w.execDirective (.d k)) W :=
  readPacket_eq_foldl ks W

/-- What `afterPacket` is: by the framing specification of the bytes held followed by the bytes the
transport has — a packet: `drive_packet` entered (fuel 3998 of the 4000 of the POLL) with the packet
in the reader and the rest in the transport; the reader must fail: dead handle and
`Peer(InvalidPacket)`; the bytes run out: suspended in the same read holding them all. -/
theorem C15M_afterPacket_spec (W : World) (outer : Outer) (dl : Option Nat) :
    W.afterPacket outer dl =
      match frame1 W.sess.reader.cap (W.sess.reader.data ++ W.curNet.rx) with
      | .packet pkt rest =>
        { driveEnter 3998 (W.clearOut.withRead (W.sess.reader.packetOf pkt) rest [] none) outer with
          slot := none }
      | .stop (.malformed held) =>
        { ((W.clearOut.withRead (W.sess.reader.packetOf held)
              ((W.sess.reader.data ++ W.curNet.rx).drop held.length) [] none).handleDisconnect).finishErr
            (outerName outer) .peerInvalid with slot := none }
      | .stop (.exhausted held) =>
        W.clearOut.withRead (W.sess.reader.holding held) [] [] (some (.waitRead outer dl true)) := rfl

/-- **Fragmented reading is equivalent to whole reading.** Two lists of read decisions for the same
suspended read (for instance `[1, 1, 1, …]` and `[250, 250, 250]`): the resulting worlds have the
same session — reader included —, transports, connection, handles, last result, transmission log,
suspended operation, clock, decision slot, wake count, starvation flag; and their traces are
`new ++ io₁ ++ old` and `new ++ io₂ ++ old` with the same `new` (everything printed by the handling
of the packet: `msg …`, `ret …`, pending writes) and read lines `io₁`, `io₂`. -/
theorem C15M_fragmentation_independent (ks₁ ks₂ : List Nat) (W : World) (outer : Outer)
    (dl : Option Nat) (y : Bool)
    (hfut : W.fut = some (.waitRead outer dl y)) (hdl : DeadlineOK W.now dl)
    (hwait : Waiting W.sess.reader W.curNet.rx) (hne : W.curNet.rx ≠ [])
    (hk1 : ∀ k ∈ ks₁, 1 ≤ k ∧ k ≤ 250) (hl1 : W.curNet.rx.length ≤ ks₁.length)
    (hk2 : ∀ k ∈ ks₂, 1 ≤ k ∧ k ≤ 250) (hl2 : W.curNet.rx.length ≤ ks₂.length) :
    let a := readPacket ks₁ W
    let c := readPacket ks₂ W
    a.sess = c.sess ∧ a.nets = c.nets ∧ a.conn = c.conn ∧ a.handles = c.handles ∧
    a.lastRes = c.lastRes ∧ a.log = c.log ∧ a.fut = c.fut ∧ a.now = c.now ∧ a.slot = c.slot ∧
    a.wakes = c.wakes ∧ a.lastIoStarved = c.lastIoStarved ∧ a.tornNets = c.tornNets ∧
    ∃ new io₁ io₂, IoLines W io₁ ∧ IoLines W io₂ ∧
      a.out = new ++ io₁ ++ W.out ∧ c.out = new ++ io₂ ++ W.out := by
  obtain ⟨io₁, h1, e1⟩ := readPacket_eq ks₁ W outer dl y hfut hdl hwait hne hk1 hl1
  obtain ⟨io₂, h2, e2⟩ := readPacket_eq ks₂ W outer dl y hfut hdl hwait hne hk2 hl2
  simp only [e1, e2]
  refine ⟨rfl, rfl, rfl, rfl, rfl, rfl, rfl, rfl, rfl, rfl, rfl, rfl,
    (W.afterPacket outer dl).out, io₁, io₂, h1, h2, ?_, ?_⟩
  · simp [World.addOld, List.append_assoc]
  · simp [World.addOld, List.append_assoc]

/-- `Sim a c`: all of the above in one relation — equal but for the trace, traces equal up to read
lines; in particular whatever a test that never selects a read line (`r n k`, `rp n`) selects from
the two traces — the `msg …` and `ret …` lines, say — is the same. -/
theorem C15M_sim_meaning {a c : World} (h : Sim a c) :
    (a.sess = c.sess ∧ a.conn = c.conn ∧ a.nets = c.nets ∧ a.fut = c.fut ∧ a.now = c.now ∧
     a.slot = c.slot ∧ a.handles = c.handles ∧ a.lastIoStarved = c.lastIoStarved ∧ a.wakes = c.wakes ∧
     a.lastRes = c.lastRes ∧ a.tornNets = c.tornNets ∧ a.log = c.log) ∧
    ∀ p : String → Bool, (∀ l, isReadLine l → p l = false) → a.out.filter p = c.out.filter p :=
  ⟨h.fields, fun p hp => h.out.filter p hp⟩

/-- **A whole stream of packets, any fragmentation of each.** Two runs made of the same directives
between the reads of the packets (`Seg.same`: operations re-issued after each return, `d 250` for
every write and flush — or any other decision, as long as it is the same in both —, ticks, further
inbound bytes) and, for each packet, its own list of read decisions in each run (`Seg.reads ks₁
ks₂`). If each `reads` piece is entered (in the left run) suspended in `read_packet` before its
deadline with a `Waiting` reader and bytes to read (`Admissible`), the two runs end in `Sim`ilar
worlds. -/
theorem C15M_stream (segs : List Seg) (w : World) (h : Admissible w segs) :
    Sim (segs.foldl (runSeg true) w) (segs.foldl (runSeg false) w) :=
  runSegs_sim segs w w (Sim.refl w) h

/-! ### Examples -/

/-- 64-byte buffers, no keep-alive (so no deadline), client identifier "c". -/
def C15M_cfg : Cfg :=
  { rx := 64, tx := 64, keepaliveS := 0, expiry := 0, downgrade := false, clientId := [0x63], auth := none,
    will := none }

/-- Connect, CONNACK, `recv()` (suspends in `read_packet`), then the broker sends: a QoS 0 PUBLISH
(topic "a", payload "A"), a PINGRESP (no body), and the first byte of another PUBLISH. -/
def C15M_pre : List Directive :=
  [.connect, .go, .rx [0x20, 0x03, 0x00, 0x00, 0x00], .go, .recv,
   .rx [0x30, 0x05, 0x00, 0x01, 0x61, 0x00, 0x41, 0xD0, 0x00, 0x30]]

def C15M_w0 : World := C15M_pre.foldl World.execDirective { sess := Session.new C15M_cfg }

/-- The hypotheses of `C15M_one_packet` hold in `C15M_w0` for each of the three lists. -/
example : readsOKb C15M_w0 [1, 1, 1, 1, 1, 1, 1, 1, 1, 1] = true ∧
    readsOKb C15M_w0 [2, 250, 250, 250, 250, 250, 250, 250, 250, 250] = true ∧
    readsOKb C15M_w0 [250, 250, 250, 250, 250, 250, 250, 250, 250, 250] = true := by decide +kernel

/-- The PUBLISH is delivered identically byte by byte, with a first decision of 2 (cut inside the
fixed header: the window is one byte), and with whole-window decisions: `recv` returns `Ok`, the
packet handed to the application is the PUBLISH, the reader is empty again, and the transport still
has the PINGRESP and the first byte of the next packet — not a byte of them was consumed. -/
example :
    let a := readPacket [1, 1, 1, 1, 1, 1, 1, 1, 1, 1] C15M_w0
    let b' := readPacket [2, 250, 250, 250, 250, 250, 250, 250, 250, 250] C15M_w0
    let c := readPacket [250, 250, 250, 250, 250, 250, 250, 250, 250, 250] C15M_w0
    (a.sess.reader.last = [0x30, 0x05, 0x00, 0x01, 0x61, 0x00, 0x41] ∧ a.sess.reader.data = [] ∧
      a.curNet.rx = [0xD0, 0x00, 0x30] ∧ a.fut.isNone = true ∧
      (match a.lastRes with | some (.ok ()) => true | _ => false) = true) ∧
    (b'.sess.reader.last = a.sess.reader.last ∧ b'.curNet.rx = a.curNet.rx ∧ b'.fut.isNone = true) ∧
    (c.sess.reader.last = a.sess.reader.last ∧ c.curNet.rx = a.curNet.rx ∧ c.fut.isNone = true) := by
  decide +kernel

/-- The number of POLLs differs: seven, three and three read lines. -/
example :
    (readPacket [1, 1, 1, 1, 1, 1, 1, 1, 1, 1] C15M_w0).out.length =
      (readPacket [250, 250, 250, 250, 250, 250, 250, 250, 250, 250] C15M_w0).out.length + 8 := by
  decide +kernel

/-- The whole stream: the PUBLISH byte by byte / in whole windows; `recv` re-issued; the PINGRESP
(header split after its first byte in both, the window being one byte; the second byte completes a
packet without body) with decisions 250 / 1 — `recv` goes on waiting —; then the single byte of the
next packet, after which the transport is empty. -/
def C15M_segs : List Seg :=
  [.reads [1, 1, 1, 1, 1, 1, 1, 1, 1, 1] [2, 250, 250, 250, 250, 250, 250, 250, 250, 250], .same .recv,
   .reads [250, 250, 250] [1, 1, 1], .reads [7] [250]]

example : admissibleb C15M_w0 C15M_segs = true := by decide +kernel

/-- Both runs end suspended in the read with the lone header byte in the reader and nothing left in
the transport. -/
example :
    let a := C15M_segs.foldl (runSeg true) C15M_w0
    let c := C15M_segs.foldl (runSeg false) C15M_w0
    a.sess.reader.data = [0x30] ∧ c.sess.reader.data = [0x30] ∧ a.curNet.rx = [] ∧ c.curNet.rx = [] ∧
    a.fut.isSome = true ∧ c.fut.isSome = true := by decide +kernel

theorem C15M_example_stream : Sim (C15M_segs.foldl (runSeg true) C15M_w0) (C15M_segs.foldl (runSeg false) C15M_w0) :=
  C15M_stream C15M_segs C15M_w0 (admissible_of_b _ _ (by decide +kernel))

end Minimq
