import Minimq.Proofs.Exchange
/-
C04 — inbound publishes: delivered faithfully, acknowledged in arrival order, QoS 2 only once.

`handlePacket d r p` returns the new session data, the new runtime and `Ok(deliver)` or an error;
`.ok true` means "hand the PUBLISH to the application" (`process_received_packet` → `Ok(Some(len))`).
The list `pendingServerIds` (`pending_server_packet_ids`) holds the identifiers of inbound QoS 2
publishes that were delivered and whose PUBREL has not arrived yet.

The acknowledgements owed to the broker are `ControlAction`s appended to `Outbound.control`; they are
encoded from the action into a 9-byte stack buffer when they are transmitted (`encodeControl`), never
into the transmit arena.

REPAIRED DEFECT (F24). Until the repair, the identifier of an inbound QoS 2 PUBLISH was recorded
*before* the size check and `queue_control`; on either failure exit (`PacketTooLarge`: the broker's
Maximum Packet Size is below the five bytes of a PUBREC, the connection is closed; `InflightExhausted`:
the control queue is full) the publish was neither delivered nor acknowledged but its identifier stayed
recorded, so the broker's retransmission — on the resumed session — was taken for a duplicate and
swallowed: the message was lost. The crate now records the identifier only after the PUBREC has been
queued, and so does the model: on both failure exits the session data is unchanged
(`C04_unacknowledged_qos2_not_recorded`), an identifier enters the list only in a step that queues its
PUBREC and delivers the publish (`C04_recorded_only_with_pubrec`, `C04_recorded_ids_were_acknowledged`),
and the former witness history now delivers the message on the retransmission
(`C04_example_F24_retransmission_delivered`).
-/
namespace Minimq
open Gen Outbound

/-- **QoS 0**: delivered, nothing changes, nothing is owed. -/
theorem C04_qos0_delivered (d : SessionData) (r : Runtime) (t : Bytes) (id : Option Nat) (pr pl : Bytes)
    (rt dup : Bool) : handlePacket d r (.publish t id pr pl rt 0 dup) = (d, r, .ok true) :=
  handlePacket_publish0 d r t id pr pl rt dup

/-- A QoS 1/2 PUBLISH without a packet identifier, or with identifier 0, is a protocol error: nothing is
delivered and nothing changes. -/
theorem C04_missing_identifier (d : SessionData) (r : Runtime) (t pr pl : Bytes) (rt dup : Bool) (qos : Nat)
    (hq : qos ≠ 0) :
    handlePacket d r (.publish t none pr pl rt qos dup) = (d, r, .error .peerInvalid) ∧
    handlePacket d r (.publish t (some 0) pr pl rt qos dup) = (d, r, .error .peerInvalid) :=
  handlePacket_publish_noid d r t pr pl rt dup qos hq

/-- **The three outcomes of owing the broker an acknowledgement `a`** (`ackOutcome`), with the exact
conditions: the broker's Maximum Packet Size is below the five bytes of an acknowledgement → error
`PacketTooLarge`, nothing changes; otherwise, if the control queue has a free slot, `a` is appended at
its END (arrival order) in the fresh state and the result is `Ok(deliver)`; otherwise error
`InflightExhausted` and the outbound state is unchanged. -/
theorem C04_ack_outcome (d : SessionData) (r : Runtime) (a : ControlAction) (deliver : Bool) :
    (r.packetTooLarge 5 = true → ackOutcome d r a deliver = (d, r, .error .packetTooLarge)) ∧
    (r.packetTooLarge 5 = false → d.outbound.control.length < MAX_PENDING_CONTROL →
      ackOutcome d r a deliver =
        ({ d with outbound := { d.outbound with
            control := d.outbound.control ++ [{ action := a, state := .write 0 }] } }, r, .ok deliver)) ∧
    (r.packetTooLarge 5 = false → ¬ d.outbound.control.length < MAX_PENDING_CONTROL →
      ackOutcome d r a deliver = (d, r, .error .inflightExhausted)) := by
  unfold ackOutcome
  refine ⟨fun h => by simp [h], fun h1 h2 => by simp [h1, h2, SessionData.withControl], fun h1 h2 => by simp [h1, h2]⟩

/-- **QoS 1** (identifier ≠ 0): the outcome is that of owing a PUBACK with the same identifier, and the
publish is delivered exactly when the PUBACK could be queued. The reason code is Success, or Packet
Identifier In Use (0x91) when the identifier is that of a QoS 2 publish still awaiting its PUBREL — the
publish is delivered in that case too. -/
theorem C04_qos1 (d : SessionData) (r : Runtime) (t : Bytes) (id : Nat) (pr pl : Bytes) (rt dup : Bool)
    (hid : id ≠ 0) :
    handlePacket d r (.publish t (some id) pr pl rt 1 dup) =
      ackOutcome d r { typ := MT_PubAck, id := id, rc := qos1Rc d.pendingServerIds id } true :=
  handlePacket_publish1 d r t id pr pl rt dup hid

/-- QoS 1, the normal case spelled out: delivered, and exactly one PUBACK with the same identifier and
reason Success appended at the end of the control queue; nothing else changes. -/
theorem C04_qos1_delivered_and_acked (d : SessionData) (r : Runtime) (t : Bytes) (id : Nat) (pr pl : Bytes)
    (rt dup : Bool) (hid : id ≠ 0) (hsz : r.packetTooLarge 5 = false)
    (hroom : d.outbound.control.length < MAX_PENDING_CONTROL) (hfree : d.pendingServerIds.contains id = false) :
    handlePacket d r (.publish t (some id) pr pl rt 1 dup) =
      ({ d with outbound := { d.outbound with control := d.outbound.control ++
          [{ action := { typ := MT_PubAck, id := id, rc := RC_Success }, state := .write 0 }] } }, r, .ok true) := by
  rw [C04_qos1 d r t id pr pl rt dup hid, (C04_ack_outcome d r _ true).2.1 hsz hroom]
  simp only [qos1Rc, hfree, Bool.false_eq_true, if_false]

/-- **The three outcomes of owing the PUBREC for an inbound QoS 2 PUBLISH** (`ackOutcome2`): as
`C04_ack_outcome`, and the list of inbound QoS 2 identifiers becomes `ids` exactly in the case in which
the PUBREC is queued; on the two error exits the session data is unchanged altogether. -/
theorem C04_ack_outcome2 (d : SessionData) (r : Runtime) (a : ControlAction) (deliver : Bool) (ids : List Nat) :
    (r.packetTooLarge 5 = true → ackOutcome2 d r a deliver ids = (d, r, .error .packetTooLarge)) ∧
    (r.packetTooLarge 5 = false → d.outbound.control.length < MAX_PENDING_CONTROL →
      ackOutcome2 d r a deliver ids =
        ({ d with pendingServerIds := ids, outbound := { d.outbound with
            control := d.outbound.control ++ [{ action := a, state := .write 0 }] } }, r, .ok deliver)) ∧
    (r.packetTooLarge 5 = false → ¬ d.outbound.control.length < MAX_PENDING_CONTROL →
      ackOutcome2 d r a deliver ids = (d, r, .error .inflightExhausted)) := by
  unfold ackOutcome2
  refine ⟨fun h => by simp [h], fun h1 h2 => by simp [h1, h2, SessionData.withControl], fun h1 h2 => by simp [h1, h2]⟩

/-- **QoS 2** (identifier ≠ 0; `qos` is 2 for every decoded packet): a PUBREC with the same identifier
is owed — reason Success if the identifier is already pending or there is room for it, Receive Maximum
Exceeded otherwise (`(qos2Ids ..).2`) — and only if it can be queued is the identifier list updated
(`(qos2Ids ..).1`: unchanged if the identifier is already pending; else appended if there is room; else
unchanged). The publish is delivered iff the identifier was not pending and there was room for it — and
the PUBREC could be queued. -/
theorem C04_qos2 (d : SessionData) (r : Runtime) (t : Bytes) (id : Nat) (pr pl : Bytes) (rt dup : Bool) (qos : Nat)
    (hid : id ≠ 0) (hq0 : qos ≠ 0) (hq1 : qos ≠ 1) :
    handlePacket d r (.publish t (some id) pr pl rt qos dup) =
      ackOutcome2 d r { typ := MT_PubRec, id := id, rc := (qos2Ids d.pendingServerIds id).2 }
        (!d.pendingServerIds.contains id && decide (d.pendingServerIds.length < MAX_INBOUND_QOS2))
        (qos2Ids d.pendingServerIds id).1 :=
  handlePacket_publish2 d r t id pr pl rt dup qos hid hq0 hq1

/-- QoS 2, first arrival: the identifier is recorded, PUBREC(Success) is appended at the end of the
control queue, the publish is delivered. -/
theorem C04_qos2_first (d : SessionData) (r : Runtime) (t : Bytes) (id : Nat) (pr pl : Bytes) (rt dup : Bool)
    (hid : id ≠ 0) (hsz : r.packetTooLarge 5 = false) (hroom : d.outbound.control.length < MAX_PENDING_CONTROL)
    (hnew : d.pendingServerIds.contains id = false) (hcap : d.pendingServerIds.length < MAX_INBOUND_QOS2) :
    handlePacket d r (.publish t (some id) pr pl rt 2 dup) =
      ({ d with pendingServerIds := d.pendingServerIds ++ [id],
                outbound := { d.outbound with control := d.outbound.control ++
                  [{ action := { typ := MT_PubRec, id := id, rc := RC_Success }, state := .write 0 }] } },
        r, .ok true) := by
  rw [C04_qos2 d r t id pr pl rt dup 2 hid (by decide) (by decide),
    (C04_ack_outcome2 d r _ _ _).2.1 hsz hroom]
  have hm : id ∉ d.pendingServerIds := by simpa using hnew
  simp [qos2Ids, hm, hcap]

/-- QoS 2, retransmission while the identifier is pending (also after any number of resumed
reconnects, see `C04_pending_ids_survive`): PUBREC(Success) is queued again, the publish is NOT
delivered again, the identifier list is unchanged. -/
theorem C04_qos2_duplicate (d : SessionData) (r : Runtime) (t : Bytes) (id : Nat) (pr pl : Bytes) (rt dup : Bool)
    (hid : id ≠ 0) (hsz : r.packetTooLarge 5 = false) (hroom : d.outbound.control.length < MAX_PENDING_CONTROL)
    (hdup : d.pendingServerIds.contains id = true) :
    handlePacket d r (.publish t (some id) pr pl rt 2 dup) =
      ({ d with outbound := { d.outbound with control := d.outbound.control ++
          [{ action := { typ := MT_PubRec, id := id, rc := RC_Success }, state := .write 0 }] } }, r, .ok false) := by
  rw [C04_qos2 d r t id pr pl rt dup 2 hid (by decide) (by decide),
    (C04_ack_outcome2 d r _ _ _).2.1 hsz hroom]
  have hm : id ∈ d.pendingServerIds := by simpa using hdup
  simp [qos2Ids, hm]

/-- QoS 2 beyond the advertised Receive Maximum (the list is full and the identifier is new): PUBREC
with reason Receive Maximum Exceeded (0x93), not delivered, not recorded. -/
theorem C04_qos2_overflow (d : SessionData) (r : Runtime) (t : Bytes) (id : Nat) (pr pl : Bytes) (rt dup : Bool)
    (hid : id ≠ 0) (hsz : r.packetTooLarge 5 = false) (hroom : d.outbound.control.length < MAX_PENDING_CONTROL)
    (hnew : d.pendingServerIds.contains id = false) (hfull : ¬ d.pendingServerIds.length < MAX_INBOUND_QOS2) :
    handlePacket d r (.publish t (some id) pr pl rt 2 dup) =
      ({ d with outbound := { d.outbound with control := d.outbound.control ++
          [{ action := { typ := MT_PubRec, id := id, rc := RC_ReceiveMaxExceeded }, state := .write 0 }] } },
        r, .ok false) := by
  rw [C04_qos2 d r t id pr pl rt dup 2 hid (by decide) (by decide),
    (C04_ack_outcome2 d r _ _ _).2.1 hsz hroom]
  have hm : id ∉ d.pendingServerIds := by simpa using hnew
  simp [qos2Ids, hm, hfull]

/-- **PUBREL** (identifier ≠ 0; identifier 0 is a protocol error): a PUBCOMP with the same identifier is
owed, never delivered to the application — reason Success if the identifier was pending (and it is
then removed from the list by `swap_remove`), Packet Identifier Not Found (0x92) otherwise. -/
theorem C04_pubrel (d : SessionData) (r : Runtime) (id : Nat) (rs : ReasonIn) (hid : id ≠ 0) :
    handlePacket d r (.pubRel id rs) =
      if d.pendingServerIds.contains id then
        ackOutcome { d with pendingServerIds := handlePacket.swapRemove d.pendingServerIds id } r
          { typ := MT_PubComp, id := id, rc := RC_Success } false
      else ackOutcome d r { typ := MT_PubComp, id := id, rc := RC_PacketIdNotFound } false :=
  handlePacket_pubRel d r id rs hid

theorem C04_pubrel_zero (d : SessionData) (r : Runtime) (rs : ReasonIn) :
    handlePacket d r (.pubRel 0 rs) = (d, r, .error .peerInvalid) :=
  handlePacket_pubRel0 d r rs

/-- `swap_remove` changes the order of the pending identifiers but not which ones remain: the result is
a permutation of the list with (the first occurrence of) `id` erased; with distinct identifiers
(`C04_pending_ids_distinct`) exactly the others stay. -/
theorem C04_pubrel_forgets_exactly_that_id (l : List Nat) (id : Nat) (hm : id ∈ l) :
    (handlePacket.swapRemove l id).Perm (l.erase id) ∧
    (l.Nodup → ∀ x, x ∈ handlePacket.swapRemove l id ↔ x ∈ l ∧ x ≠ id) :=
  ⟨swapRemove_perm l id hm, fun hn x => swapRemove_mem l id hn hm x⟩

/-- **The acknowledgements do not need the arena**: whether `queue_control` succeeds depends on nothing
but the length of the control queue, and it changes nothing but that queue — whatever the retained list,
`used` and the buffer are (no free slot, no free byte). -/
theorem C04_acks_need_no_arena (o : Outbound) (a : ControlAction) :
    o.queueControl a = (if o.control.length < MAX_PENDING_CONTROL then
      some { o with control := o.control ++ [{ action := a, state := .write 0 }] } else none) ∧
    (∀ o' : Outbound, o'.control = o.control → (o'.queueControl a).isSome = (o.queueControl a).isSome) := by
  refine ⟨queueControl_eq o a, fun o' h => ?_⟩
  rw [queueControl_eq, queueControl_eq, h]
  split <;> rfl

/-- What is written for an owed PUBACK / PUBREC / PUBCOMP: five bytes, which the reference parser reads
back as that packet type with exactly the identifier and reason code of the action. -/
theorem C04_ack_bytes (a : ControlAction) (h : a.typ = MT_PubAck ∨ a.typ = MT_PubRec ∨ a.typ = MT_PubComp) :
    encodeControl a = .ok (controlBytes a) ∧ (controlBytes a).length = 5 ∧
    (0 < a.id ∧ a.id < 65536 → a.rc < 256 → ∀ rest,
      Spec.parseClientPacket (controlBytes a ++ rest) = some (.ack a.typ a.id a.rc [], rest)) :=
  ⟨encodeControl_ack a h, controlBytes_length a, fun hid hrc rest => controlBytes_spec a h hid hrc rest⟩

/-- Acknowledgements leave the control queue only by being flushed, and those that remain keep their
order (the next one transmitted is the first fresh one, `nextStepPrio_control`). -/
theorem C04_ack_order_kept (o : Outbound) (a : ControlAction) :
    ((o.flushControl a).control.map (·.action)).Sublist (o.control.map (·.action)) :=
  flushControl_sublist o a

/-- **The pending identifiers change only on an inbound QoS 2 PUBLISH whose PUBREC is queued, and on an
inbound PUBREL.** -/
theorem C04_pending_ids_changed_only_by (d : SessionData) (r : Runtime) (p : Recv) :
    (handlePacket d r p).1.pendingServerIds =
      match p with
      | .publish _ (some id) _ _ _ qos _ =>
        if qos = 0 ∨ qos = 1 ∨ id = 0 then d.pendingServerIds
        else if r.packetTooLarge 5 = false ∧ d.outbound.control.length < MAX_PENDING_CONTROL then
          (qos2Ids d.pendingServerIds id).1
        else d.pendingServerIds
      | .pubRel id _ =>
        if id ≠ 0 ∧ d.pendingServerIds.contains id then handlePacket.swapRemove d.pendingServerIds id
        else d.pendingServerIds
      | _ => d.pendingServerIds :=
  handlePacket_pendingIds d r p

/-- **…and survive everything else**: every primitive step of the session either leaves the list alone
(this includes `arm_replay`, i.e. every disconnect and every connect, and the CONNACK of a resumed
session), or handles an inbound packet, or is the CONNACK of a fresh broker session — which empties
it. -/
theorem C04_pending_ids_survive {s s' : Session} (st : SessStep s s') :
    s'.data.pendingServerIds = s.data.pendingServerIds ∨ (∃ p, s' = (s.handle p).1) ∨
    (∃ block now, s' = (s.activate false block now).1 ∧ s'.data.pendingServerIds = []) := by
  rcases st.classify with hq | h | ⟨block, now, rfl⟩
  · exact Or.inl hq.pending
  · exact Or.inr (Or.inl h)
  · exact Or.inr (Or.inr ⟨block, now, rfl, (activate_false_data s block now).2.1⟩)

theorem C04_fresh_session_forgets (d : SessionData) : d.reset.pendingServerIds = [] := rfl

theorem C04_armReplay_keeps (d : SessionData) :
    ({ d with outbound := d.outbound.armReplay } : SessionData).pendingServerIds = d.pendingServerIds := rfl

/-- In every reachable state the pending identifiers are pairwise distinct and at most
`MAX_INBOUND_QOS2` (the Receive Maximum announced in CONNECT). -/
theorem C04_pending_ids_distinct (cfg : Cfg) (ds : List Directive) :
    let d := (ds.foldl World.execDirective { sess := Session.new cfg }).sess.data
    d.pendingServerIds.Nodup ∧ d.pendingServerIds.length ≤ MAX_INBOUND_QOS2 :=
  run_inv closed_PendingInv ds { sess := Session.new cfg } ⟨by simp [Session.new], by simp [Session.new]⟩

/-- **Exactly as sent**: `from_buffer` applied to a PUBLISH as a broker writes it (`brokerPublish`, a
local reference encoder) returns the topic, packet identifier, raw property block, payload, RETAIN, QoS
and DUP of the packet — for every well-formed PUBLISH (QoS ≤ 2; identifier present exactly when QoS > 0;
UTF-8 topic below 65536 bytes; lengths within the MQTT limit). -/
theorem C04_decode_publish (topic : Bytes) (id : Option Nat) (props payload : Bytes) (retain : Bool)
    (qos : Nat) (dup : Bool) (hq : qos ≤ 2)
    (hid : match id with
      | some i => 0 < qos ∧ i < 65536
      | none => qos = 0)
    (htl : topic.length < 65536) (htv : validUtf8 topic = true)
    (hpl : props.length ≤ MQTT_VARINT_MAX)
    (hbl : (brokerPublishBody topic id props payload).length ≤ MQTT_VARINT_MAX) :
    fromBuffer (brokerPublish topic id props payload retain qos dup) =
      some (.publish topic id props payload retain qos dup) :=
  fromBuffer_brokerPublish topic id props payload retain qos dup hq hid htl htv hpl hbl

/-! ### Instances -/

/-- A state with one QoS 2 identifier pending, one acknowledgement queued and a full retained list. -/
def C04_ex : SessionData :=
  { outbound := { (Outbound.new 8) with
      control := [{ action := { typ := MT_PubAck, id := 3, rc := 0 }, state := .sent }],
      retained := List.replicate 8 { id := 1, offset := 0, len := 1, state := .sent } },
    pendingServerIds := [7] }

def C04_rt : Runtime := { keepaliveMs := 0, configuredKeepaliveMs := 0 }

/-- Non-vacuity of `C04_qos2_first`, `C04_qos2_duplicate`, `C04_pubrel` (retained list full, arena full). -/
example :
    (handlePacket C04_ex C04_rt (.publish [0x61] (some 9) [] [1] false 2 false)).2.2 = .ok true ∧
    (handlePacket C04_ex C04_rt (.publish [0x61] (some 9) [] [1] false 2 false)).1.pendingServerIds = [7, 9] ∧
    (handlePacket C04_ex C04_rt (.publish [0x61] (some 7) [] [1] false 2 true)).2.2 = .ok false ∧
    ((handlePacket C04_ex C04_rt (.publish [0x61] (some 7) [] [1] false 2 true)).1.outbound.control.map (·.action)) =
      [{ typ := MT_PubAck, id := 3, rc := 0 }, { typ := MT_PubRec, id := 7, rc := 0 }] ∧
    (handlePacket C04_ex C04_rt (.pubRel 7 { code := none, props := none })).1.pendingServerIds = [] ∧
    ((handlePacket C04_ex C04_rt (.pubRel 8 { code := none, props := none })).1.outbound.control.map (·.action)) =
      [{ typ := MT_PubAck, id := 3, rc := 0 }, { typ := MT_PubComp, id := 8, rc := RC_PacketIdNotFound }] := by
  refine ⟨?_, ?_, ?_, ?_, ?_, ?_⟩ <;> first | rfl | decide

/-- Non-vacuity of `C04_decode_publish`: a QoS 1 retained PUBLISH of topic "a" with identifier 0x0102,
an empty property block and payload `05 06`. -/
example : brokerPublish [0x61] (some 0x0102) [] [5, 6] true 1 false = [0x33, 8, 0, 1, 0x61, 1, 2, 0, 5, 6] ∧
    fromBuffer [0x33, 8, 0, 1, 0x61, 1, 2, 0, 5, 6] = some (.publish [0x61] (some 0x0102) [] [5, 6] true 1 false) := by
  decide

/-- A control queue with all `MAX_PENDING_CONTROL` slots taken (eight unsent acknowledgements). -/
def C04_full : SessionData :=
  { outbound := { (Outbound.new 8) with
      control := List.replicate 8 { action := { typ := MT_PubAck, id := 3, rc := 0 }, state := .write 0 } } }

/-- **An inbound QoS 2 PUBLISH whose PUBREC cannot be queued leaves no trace** (repair of F24). If the
broker's Maximum Packet Size is below the five bytes of a PUBREC, or the control queue is full, handling
the PUBLISH changes neither the session data nor the runtime and reports the error (`PacketTooLarge`,
after which `process_received_packet` closes the connection, resp. `InflightExhausted`). In particular
the identifier is not recorded, so the broker's retransmission — on this or on a later, resumed
connection — is handled as a first arrival. -/
theorem C04_unacknowledged_qos2_not_recorded (d : SessionData) (r : Runtime) (t : Bytes) (id : Nat) (pr pl : Bytes)
    (rt dup : Bool) (qos : Nat) (hid : id ≠ 0) (hq0 : qos ≠ 0) (hq1 : qos ≠ 1) :
    (r.packetTooLarge 5 = true →
      handlePacket d r (.publish t (some id) pr pl rt qos dup) = (d, r, .error .packetTooLarge)) ∧
    (r.packetTooLarge 5 = false → ¬ d.outbound.control.length < MAX_PENDING_CONTROL →
      handlePacket d r (.publish t (some id) pr pl rt qos dup) = (d, r, .error .inflightExhausted)) := by
  rw [C04_qos2 d r t id pr pl rt dup qos hid hq0 hq1]
  exact ⟨(C04_ack_outcome2 d r _ _ _).1, (C04_ack_outcome2 d r _ _ _).2.2⟩

/-- **An identifier is recorded only together with its PUBREC.** If handling an inbound packet puts an
identifier into the list that was not there, the packet is a QoS 2 PUBLISH with that identifier, the
PUBREC with reason Success for it was appended to the control queue in this same step, and the publish
is delivered to the application. -/
theorem C04_recorded_only_with_pubrec (d : SessionData) (r : Runtime) (p : Recv) (id : Nat)
    (hnew : id ∈ (handlePacket d r p).1.pendingServerIds) (hold : id ∉ d.pendingServerIds) :
    (∃ t pr pl rt qos dup, p = .publish t (some id) pr pl rt qos dup ∧ qos ≠ 0 ∧ qos ≠ 1) ∧ id ≠ 0 ∧
    (handlePacket d r p).1.outbound.control = d.outbound.control ++
      [{ action := { typ := MT_PubRec, id := id, rc := RC_Success }, state := .write 0 }] ∧
    (handlePacket d r p).2.2 = .ok true ∧
    (handlePacket d r p).1.pendingServerIds = d.pendingServerIds ++ [id] := by
  have hp := C04_pending_ids_changed_only_by d r p
  cases p with
  | publish t i pr pl rt qos dup =>
    cases i with
    | none => simp only [] at hp; rw [hp] at hnew; exact absurd hnew hold
    | some i =>
      simp only [] at hp
      by_cases h1 : qos = 0 ∨ qos = 1 ∨ i = 0
      · rw [if_pos h1] at hp; rw [hp] at hnew; exact absurd hnew hold
      · rw [if_neg h1] at hp
        have hq0 : qos ≠ 0 := fun h => h1 (Or.inl h)
        have hq1 : qos ≠ 1 := fun h => h1 (Or.inr (Or.inl h))
        have hi : i ≠ 0 := fun h => h1 (Or.inr (Or.inr h))
        by_cases h2 : r.packetTooLarge 5 = false ∧ d.outbound.control.length < MAX_PENDING_CONTROL
        · rw [if_pos h2] at hp
          rw [hp] at hnew
          unfold qos2Ids at hnew hp
          by_cases hc : d.pendingServerIds.contains i = true
          · rw [if_pos hc] at hnew; exact absurd hnew hold
          · rw [if_neg hc] at hnew hp
            by_cases hl : d.pendingServerIds.length < MAX_INBOUND_QOS2
            · rw [if_pos hl] at hnew hp
              have hii : id = i := by
                rcases List.mem_append.mp hnew with hm | hm
                · exact absurd hm hold
                · simpa using hm
              subst hii
              have hm : id ∉ d.pendingServerIds := by simpa using hc
              refine ⟨⟨t, pr, pl, rt, qos, dup, rfl, hq0, hq1⟩, hi, ?_, ?_, hp⟩
              · rw [C04_qos2 d r t id pr pl rt dup qos hi hq0 hq1, (C04_ack_outcome2 d r _ _ _).2.1 h2.1 h2.2]
                simp [qos2Ids, hm, hl]
              · rw [C04_qos2 d r t id pr pl rt dup qos hi hq0 hq1, (C04_ack_outcome2 d r _ _ _).2.1 h2.1 h2.2]
                simp [hm, hl]
            · rw [if_neg hl] at hnew; exact absurd hnew hold
        · rw [if_neg h2] at hp; rw [hp] at hnew; exact absurd hnew hold
  | pubRel i rs =>
    simp only [] at hp
    rw [hp] at hnew
    split at hnew
    · rename_i hc
      have hm : i ∈ d.pendingServerIds := by simpa using hc.2
      have hperm := swapRemove_perm d.pendingServerIds i hm
      exact absurd (List.mem_of_mem_erase (hperm.mem_iff.mp hnew)) hold
    · exact absurd hnew hold
  | connAck sp rc props => rw [hp] at hnew; exact absurd hnew hold
  | pingResp => rw [hp] at hnew; exact absurd hnew hold
  | disconnect rc props => rw [hp] at hnew; exact absurd hnew hold
  | subAck i props codes => rw [hp] at hnew; exact absurd hnew hold
  | unsubAck i props codes => rw [hp] at hnew; exact absurd hnew hold
  | pubAck i rs => rw [hp] at hnew; exact absurd hnew hold
  | pubRec i rs => rw [hp] at hnew; exact absurd hnew hold
  | pubComp i rs => rw [hp] at hnew; exact absurd hnew hold

/-- Along a chain of steps: an identifier that is in the list at the end and was not at the start
entered it in one particular step. -/
theorem Reach.pending_gain {I : Session → Prop} {s0 s : Session} (h : Reach I s0 s) {id : Nat}
    (h1 : id ∉ s0.data.pendingServerIds) (h2 : id ∈ s.data.pendingServerIds) :
    ∃ a b, Reach I s0 a ∧ SessStep a b ∧ Reach I b s ∧ id ∉ a.data.pendingServerIds ∧ id ∈ b.data.pendingServerIds := by
  induction h with
  | refl => exact absurd h2 h1
  | @tail b c hr st hi ih =>
    by_cases hb : id ∈ b.data.pendingServerIds
    · obtain ⟨x, y, r1, sxy, r2, hx, hy⟩ := ih hb
      exact ⟨x, y, r1, sxy, r2.tail st hi, hx, hy⟩
    · exact ⟨b, c, hr, st, Reach.refl _, hb, h2⟩

/-- **Every recorded identifier was acknowledged and delivered, for all programs.** After any program,
for every identifier in `pending_server_packet_ids` the execution contains one particular primitive step
`a → b` — the handling of an inbound QoS 2 PUBLISH with that identifier — in which the identifier was
recorded, the PUBREC (reason Success) for it was appended to the control queue, and the publish was
handed to the application. -/
theorem C04_recorded_ids_were_acknowledged (cfg : Cfg) (ds : List Directive) :
    let s := (ds.foldl World.execDirective { sess := Session.new cfg }).sess
    ∀ id ∈ s.data.pendingServerIds,
      ∃ a b p, Reach (fun _ => True) (Session.new cfg) a ∧ b = (a.handle p).1 ∧ Reach (fun _ => True) b s ∧
        (∃ t pr pl rt qos dup, p = .publish t (some id) pr pl rt qos dup ∧ qos ≠ 0 ∧ qos ≠ 1) ∧
        b.data.outbound.control = a.data.outbound.control ++
          [{ action := { typ := MT_PubRec, id := id, rc := RC_Success }, state := .write 0 }] ∧
        (a.handle p).2 = .ok true ∧ id ∉ a.data.pendingServerIds := by
  intro s id hid
  have hr : Reach (fun _ => True) (Session.new cfg) s :=
    run_reach Closed.true ds { sess := Session.new cfg } trivial
  obtain ⟨a, b, r1, st, r2, ha, hb⟩ := hr.pending_gain (by simp [Session.new]) hid
  rcases st.classify with hq | ⟨p, rfl⟩ | ⟨block, now, rfl⟩
  · rw [hq.pending] at hb; exact absurd hb ha
  · rw [Session.handle_fst_data] at hb
    obtain ⟨h1, _, h3, h4, _⟩ := C04_recorded_only_with_pubrec a.data a.rt p id hb ha
    refine ⟨a, _, p, r1, rfl, r2, h1, ?_, ?_, ha⟩
    · rw [Session.handle_fst_data]; exact h3
    · show (handlePacket a.data a.rt p).2.2 = .ok true
      exact h4
  · rw [(activate_false_data a block now).2.1] at hb; simp at hb

/-! ### The former witness of F24, as a program -/

def C04_F24_cfg : Cfg :=
  { rx := 64, tx := 128, keepaliveS := 0, expiry := 300, downgrade := false, clientId := [0x63], auth := none, will := none }

/-- The CONNACK announces Maximum Packet Size 4; an inbound QoS 2 PUBLISH with identifier 1 arrives;
`poll` fails with `PacketTooLarge` and closes the connection. The client reconnects, the broker resumes
the session (no size limit this time) and retransmits the PUBLISH with the DUP flag. -/
def C04_F24_prog : List Directive :=
  [.connect, .rx [0x20, 0x08, 0x00, 0x00, 0x05, 0x27, 0x00, 0x00, 0x00, 0x04], .go,
   .rx [0x34, 0x07, 0x00, 0x01, 0x74, 0x00, 0x01, 0x00, 0x70], .poll, .go,
   .connect, .rx [0x20, 0x03, 0x01, 0x00, 0x00], .go,
   .rx [0x3c, 0x07, 0x00, 0x01, 0x74, 0x00, 0x01, 0x00, 0x70], .poll, .go]

set_option maxRecDepth 8192 in
/-- After the first `poll`: the error is `PacketTooLarge`, the connection is closed, nothing was
delivered or queued — and, since the repair, identifier 1 is NOT recorded. After the retransmission on
the resumed connection: the message IS delivered (`ret poll ok msg`, payload `70`), identifier 1 is
recorded and its PUBREC is queued. (Before the repair the retransmission was PUBRECed as a duplicate and
never delivered.) -/
theorem C04_example_F24_retransmission_delivered :
    let w1 := (C04_F24_prog.take 6).foldl World.execDirective { sess := Session.new C04_F24_cfg }
    let w2 := C04_F24_prog.foldl World.execDirective { sess := Session.new C04_F24_cfg }
    (match w1.lastRes with | some (.error .packetTooLarge) => true | _ => false) = true ∧ w1.live = false ∧
    w1.sess.data.pendingServerIds = [] ∧ w1.sess.data.outbound.control = [] ∧
    w2.live = true ∧ w2.sess.data.pendingServerIds = [1] ∧
    w2.sess.data.outbound.control.map (·.action) = [{ typ := MT_PubRec, id := 1, rc := RC_Success }] ∧
    w2.out.contains "ret poll ok msg @0" = true ∧
    w2.out.contains "msg topic=74 payload=70 qos=2 retain=0 props=- iter=- rt=none cd=none" = true := by
  decide +kernel

end Minimq
