import Minimq.Proofs.Exchange
/-
C04 — inbound publishes: delivered faithfully, acknowledged in arrival order, QoS 2 only once.

`handlePacket d r p` returns the new session data, the new runtime and `Ok(deliver)` or an error;
`.ok true` means "hand the PUBLISH to the application" (`process_received_packet` → `Ok(Some(len))`).
The list `pendingServerIds` (`pending_server_packet_ids`) holds the identifiers of inbound QoS 2
publishes that were delivered and whose PUBREL has not arrived yet.

The acknowledgements owed to the broker are `ControlAction`s appended to `Outbound.control`; they are
encoded from the action into a 9-byte stack buffer when they are transmitted (`encodeControl`), never
into the transmit arena.

FINDING at the level of `handle_packet` (see `C04_finding_qos2_lost_when_control_full`): for an inbound
QoS 2 PUBLISH the identifier is recorded *before* `queue_control` is attempted. If the control queue is
full at that moment the poll returns `InflightExhausted`, the publish is not delivered, no PUBREC is
queued, the connection stays up — and every later retransmission of that PUBLISH is treated as a
duplicate: acknowledged, never delivered. The same ordering makes the `PacketTooLarge` exit of
`C04_ack_outcome` lose the message (identifier recorded, connection dropped, retransmission on the
resumed session swallowed); that exit needs a broker announcing a Maximum Packet Size below 5.
Whether a full control queue is reachable through the API is NOT settled here: `drive_packet` writes
every owed acknowledgement before it reads the next packet (`Ops.driveLoop`), which suggests the queue
never holds more than a couple of entries; no invariant to that effect is proved.
-/
namespace Minimq
open Gen Outbound

/-- **QoS 0**: delivered, nothing changes, nothing is owed. -/
theorem C04_qos0_delivered (d : SessionData) (r : Runtime) (t : Bytes) (id : Option Nat) (pr pl : Bytes)
    (rt dup : Bool) : handlePacket d r (.publish t id pr pl rt 0 dup) = (d, r, .ok true) :=
  handlePacket_publish0 d r t id pr pl rt dup

/-- A QoS 1/2 PUBLISH without a packet identifier, or with identifier 0, is a protocol error: nothing is
delivered and nothing changes. -/
theorem C04_missing_identifier (d : SessionData) (r : Runtime) (t pr pl : Bytes) (rt dup : Bool) (qos : Nat)
    (hq : qos ≠ 0) :
    handlePacket d r (.publish t none pr pl rt qos dup) = (d, r, .error .peerInvalid) ∧
    handlePacket d r (.publish t (some 0) pr pl rt qos dup) = (d, r, .error .peerInvalid) :=
  handlePacket_publish_noid d r t pr pl rt dup qos hq

/-- **The three outcomes of owing the broker an acknowledgement `a`** (`ackOutcome`), with the exact
conditions: the broker's Maximum Packet Size is below the five bytes of an acknowledgement → error
`PacketTooLarge`, nothing changes; otherwise, if the control queue has a free slot, `a` is appended at
its END (arrival order) in the fresh state and the result is `Ok(deliver)`; otherwise error
`InflightExhausted` and the outbound state is unchanged. -/
theorem C04_ack_outcome (d : SessionData) (r : Runtime) (a : ControlAction) (deliver : Bool) :
    (r.packetTooLarge 5 = true → ackOutcome d r a deliver = (d, r, .error .packetTooLarge)) ∧
    (r.packetTooLarge 5 = false → d.outbound.control.length < MAX_PENDING_CONTROL →
      ackOutcome d r a deliver =
        ({ d with outbound := { d.outbound with
            control := d.outbound.control ++ [{ action := a, state := .write 0 }] } }, r, .ok deliver)) ∧
    (r.packetTooLarge 5 = false → ¬ d.outbound.control.length < MAX_PENDING_CONTROL →
      ackOutcome d r a deliver = (d, r, .error .inflightExhausted)) := by
  unfold ackOutcome
  refine ⟨fun h => by simp [h], fun h1 h2 => by simp [h1, h2, SessionData.withControl], fun h1 h2 => by simp [h1, h2]⟩

/-- **QoS 1** (identifier ≠ 0): the outcome is that of owing a PUBACK with the same identifier, and the
publish is delivered exactly when the PUBACK could be queued. The reason code is Success, or Packet
Identifier In Use (0x91) when the identifier is that of a QoS 2 publish still awaiting its PUBREL — the
publish is delivered in that case too. -/
theorem C04_qos1 (d : SessionData) (r : Runtime) (t : Bytes) (id : Nat) (pr pl : Bytes) (rt dup : Bool)
    (hid : id ≠ 0) :
    handlePacket d r (.publish t (some id) pr pl rt 1 dup) =
      ackOutcome d r { typ := MT_PubAck, id := id, rc := qos1Rc d.pendingServerIds id } true :=
  handlePacket_publish1 d r t id pr pl rt dup hid

/-- QoS 1, the normal case spelled out: delivered, and exactly one PUBACK with the same identifier and
reason Success appended at the end of the control queue; nothing else changes. -/
theorem C04_qos1_delivered_and_acked (d : SessionData) (r : Runtime) (t : Bytes) (id : Nat) (pr pl : Bytes)
    (rt dup : Bool) (hid : id ≠ 0) (hsz : r.packetTooLarge 5 = false)
    (hroom : d.outbound.control.length < MAX_PENDING_CONTROL) (hfree : d.pendingServerIds.contains id = false) :
    handlePacket d r (.publish t (some id) pr pl rt 1 dup) =
      ({ d with outbound := { d.outbound with control := d.outbound.control ++
          [{ action := { typ := MT_PubAck, id := id, rc := RC_Success }, state := .write 0 }] } }, r, .ok true) := by
  rw [C04_qos1 d r t id pr pl rt dup hid, (C04_ack_outcome d r _ true).2.1 hsz hroom]
  simp only [qos1Rc, hfree, Bool.false_eq_true, if_false]

/-- **QoS 2** (identifier ≠ 0; `qos` is 2 for every decoded packet): first the identifier list is
updated (`qos2Ids`: unchanged if the identifier is already pending; else appended if there is room; else
unchanged with reason Receive Maximum Exceeded), then a PUBREC with the same identifier is owed. The
publish is delivered iff the identifier was not pending and there was room for it — and the PUBREC could
be queued. -/
theorem C04_qos2 (d : SessionData) (r : Runtime) (t : Bytes) (id : Nat) (pr pl : Bytes) (rt dup : Bool) (qos : Nat)
    (hid : id ≠ 0) (hq0 : qos ≠ 0) (hq1 : qos ≠ 1) :
    handlePacket d r (.publish t (some id) pr pl rt qos dup) =
      ackOutcome { d with pendingServerIds := (qos2Ids d.pendingServerIds id).1 } r
        { typ := MT_PubRec, id := id, rc := (qos2Ids d.pendingServerIds id).2 }
        (!d.pendingServerIds.contains id && decide (d.pendingServerIds.length < MAX_INBOUND_QOS2)) :=
  handlePacket_publish2 d r t id pr pl rt dup qos hid hq0 hq1

/-- QoS 2, first arrival: the identifier is recorded, PUBREC(Success) is appended at the end of the
control queue, the publish is delivered. -/
theorem C04_qos2_first (d : SessionData) (r : Runtime) (t : Bytes) (id : Nat) (pr pl : Bytes) (rt dup : Bool)
    (hid : id ≠ 0) (hsz : r.packetTooLarge 5 = false) (hroom : d.outbound.control.length < MAX_PENDING_CONTROL)
    (hnew : d.pendingServerIds.contains id = false) (hcap : d.pendingServerIds.length < MAX_INBOUND_QOS2) :
    handlePacket d r (.publish t (some id) pr pl rt 2 dup) =
      ({ d with pendingServerIds := d.pendingServerIds ++ [id],
                outbound := { d.outbound with control := d.outbound.control ++
                  [{ action := { typ := MT_PubRec, id := id, rc := RC_Success }, state := .write 0 }] } },
        r, .ok true) := by
  rw [C04_qos2 d r t id pr pl rt dup 2 hid (by decide) (by decide),
    (C04_ack_outcome { d with pendingServerIds := (qos2Ids d.pendingServerIds id).1 } r _ _).2.1 hsz hroom]
  have hm : id ∉ d.pendingServerIds := by simpa using hnew
  simp [qos2Ids, hm, hcap]

/-- QoS 2, retransmission while the identifier is pending (also after any number of resumed
reconnects, see `C04_pending_ids_survive`): PUBREC(Success) is queued again, the publish is NOT
delivered again, the identifier list is unchanged. -/
theorem C04_qos2_duplicate (d : SessionData) (r : Runtime) (t : Bytes) (id : Nat) (pr pl : Bytes) (rt dup : Bool)
    (hid : id ≠ 0) (hsz : r.packetTooLarge 5 = false) (hroom : d.outbound.control.length < MAX_PENDING_CONTROL)
    (hdup : d.pendingServerIds.contains id = true) :
    handlePacket d r (.publish t (some id) pr pl rt 2 dup) =
      ({ d with outbound := { d.outbound with control := d.outbound.control ++
          [{ action := { typ := MT_PubRec, id := id, rc := RC_Success }, state := .write 0 }] } }, r, .ok false) := by
  rw [C04_qos2 d r t id pr pl rt dup 2 hid (by decide) (by decide),
    (C04_ack_outcome { d with pendingServerIds := (qos2Ids d.pendingServerIds id).1 } r _ _).2.1 hsz hroom]
  have hm : id ∈ d.pendingServerIds := by simpa using hdup
  simp [qos2Ids, hm]

/-- QoS 2 beyond the advertised Receive Maximum (the list is full and the identifier is new): PUBREC
with reason Receive Maximum Exceeded (0x93), not delivered, not recorded. -/
theorem C04_qos2_overflow (d : SessionData) (r : Runtime) (t : Bytes) (id : Nat) (pr pl : Bytes) (rt dup : Bool)
    (hid : id ≠ 0) (hsz : r.packetTooLarge 5 = false) (hroom : d.outbound.control.length < MAX_PENDING_CONTROL)
    (hnew : d.pendingServerIds.contains id = false) (hfull : ¬ d.pendingServerIds.length < MAX_INBOUND_QOS2) :
    handlePacket d r (.publish t (some id) pr pl rt 2 dup) =
      ({ d with outbound := { d.outbound with control := d.outbound.control ++
          [{ action := { typ := MT_PubRec, id := id, rc := RC_ReceiveMaxExceeded }, state := .write 0 }] } },
        r, .ok false) := by
  rw [C04_qos2 d r t id pr pl rt dup 2 hid (by decide) (by decide),
    (C04_ack_outcome { d with pendingServerIds := (qos2Ids d.pendingServerIds id).1 } r _ _).2.1 hsz hroom]
  have hm : id ∉ d.pendingServerIds := by simpa using hnew
  simp [qos2Ids, hm, hfull]

/-- **PUBREL** (identifier ≠ 0; identifier 0 is a protocol error): a PUBCOMP with the same identifier is
owed, never delivered to the application — reason Success if the identifier was pending (and it is
then removed from the list by `swap_remove`), Packet Identifier Not Found (0x92) otherwise. -/
theorem C04_pubrel (d : SessionData) (r : Runtime) (id : Nat) (rs : ReasonIn) (hid : id ≠ 0) :
    handlePacket d r (.pubRel id rs) =
      if d.pendingServerIds.contains id then
        ackOutcome { d with pendingServerIds := handlePacket.swapRemove d.pendingServerIds id } r
          { typ := MT_PubComp, id := id, rc := RC_Success } false
      else ackOutcome d r { typ := MT_PubComp, id := id, rc := RC_PacketIdNotFound } false :=
  handlePacket_pubRel d r id rs hid

theorem C04_pubrel_zero (d : SessionData) (r : Runtime) (rs : ReasonIn) :
    handlePacket d r (.pubRel 0 rs) = (d, r, .error .peerInvalid) :=
  handlePacket_pubRel0 d r rs

/-- `swap_remove` changes the order of the pending identifiers but not which ones remain: the result is
a permutation of the list with (the first occurrence of) `id` erased; with distinct identifiers
(`C04_pending_ids_distinct`) exactly the others stay. -/
theorem C04_pubrel_forgets_exactly_that_id (l : List Nat) (id : Nat) (hm : id ∈ l) :
    (handlePacket.swapRemove l id).Perm (l.erase id) ∧
    (l.Nodup → ∀ x, x ∈ handlePacket.swapRemove l id ↔ x ∈ l ∧ x ≠ id) :=
  ⟨swapRemove_perm l id hm, fun hn x => swapRemove_mem l id hn hm x⟩

/-- **The acknowledgements do not need the arena**: whether `queue_control` succeeds depends on nothing
but the length of the control queue, and it changes nothing but that queue — whatever the retained list,
`used` and the buffer are (no free slot, no free byte). -/
theorem C04_acks_need_no_arena (o : Outbound) (a : ControlAction) :
    o.queueControl a = (if o.control.length < MAX_PENDING_CONTROL then
      some { o with control := o.control ++ [{ action := a, state := .write 0 }] } else none) ∧
    (∀ o' : Outbound, o'.control = o.control → (o'.queueControl a).isSome = (o.queueControl a).isSome) := by
  refine ⟨queueControl_eq o a, fun o' h => ?_⟩
  rw [queueControl_eq, queueControl_eq, h]
  split <;> rfl

/-- What is written for an owed PUBACK / PUBREC / PUBCOMP: five bytes, which the reference parser reads
back as that packet type with exactly the identifier and reason code of the action. -/
theorem C04_ack_bytes (a : ControlAction) (h : a.typ = MT_PubAck ∨ a.typ = MT_PubRec ∨ a.typ = MT_PubComp) :
    encodeControl a = .ok (controlBytes a) ∧ (controlBytes a).length = 5 ∧
    (0 < a.id ∧ a.id < 65536 → a.rc < 256 → ∀ rest,
      Spec.parseClientPacket (controlBytes a ++ rest) = some (.ack a.typ a.id a.rc [], rest)) :=
  ⟨encodeControl_ack a h, controlBytes_length a, fun hid hrc rest => controlBytes_spec a h hid hrc rest⟩

/-- Acknowledgements leave the control queue only by being flushed, and those that remain keep their
order (the next one transmitted is the first fresh one, `nextStepPrio_control`). -/
theorem C04_ack_order_kept (o : Outbound) (a : ControlAction) :
    ((o.flushControl a).control.map (·.action)).Sublist (o.control.map (·.action)) :=
  flushControl_sublist o a

/-- **The pending identifiers change only on an inbound QoS 2 PUBLISH and on an inbound PUBREL.** -/
theorem C04_pending_ids_changed_only_by (d : SessionData) (r : Runtime) (p : Recv) :
    (handlePacket d r p).1.pendingServerIds =
      match p with
      | .publish _ (some id) _ _ _ qos _ =>
        if qos = 0 ∨ qos = 1 ∨ id = 0 then d.pendingServerIds else (qos2Ids d.pendingServerIds id).1
      | .pubRel id _ =>
        if id ≠ 0 ∧ d.pendingServerIds.contains id then handlePacket.swapRemove d.pendingServerIds id
        else d.pendingServerIds
      | _ => d.pendingServerIds :=
  handlePacket_pendingIds d r p

/-- **…and survive everything else**: every primitive step of the session either leaves the list alone
(this includes `arm_replay`, i.e. every disconnect and every connect, and the CONNACK of a resumed
session), or handles an inbound packet, or is the CONNACK of a fresh broker session — which empties
it. -/
theorem C04_pending_ids_survive {s s' : Session} (st : SessStep s s') :
    s'.data.pendingServerIds = s.data.pendingServerIds ∨ (∃ p, s' = (s.handle p).1) ∨
    (∃ block now, s' = (s.activate false block now).1 ∧ s'.data.pendingServerIds = []) := by
  rcases st.classify with hq | h | ⟨block, now, rfl⟩
  · exact Or.inl hq.pending
  · exact Or.inr (Or.inl h)
  · exact Or.inr (Or.inr ⟨block, now, rfl, (activate_false_data s block now).2.1⟩)

theorem C04_fresh_session_forgets (d : SessionData) : d.reset.pendingServerIds = [] := rfl

theorem C04_armReplay_keeps (d : SessionData) :
    ({ d with outbound := d.outbound.armReplay } : SessionData).pendingServerIds = d.pendingServerIds := rfl

/-- In every reachable state the pending identifiers are pairwise distinct and at most
`MAX_INBOUND_QOS2` (the Receive Maximum announced in CONNECT). -/
theorem C04_pending_ids_distinct (cfg : Cfg) (ds : List Directive) :
    let d := (ds.foldl World.execDirective { sess := Session.new cfg }).sess.data
    d.pendingServerIds.Nodup ∧ d.pendingServerIds.length ≤ MAX_INBOUND_QOS2 :=
  run_inv closed_PendingInv ds { sess := Session.new cfg } ⟨by simp [Session.new], by simp [Session.new]⟩

/-- **Exactly as sent**: `from_buffer` applied to a PUBLISH as a broker writes it (`brokerPublish`, a
local reference encoder) returns the topic, packet identifier, raw property block, payload, RETAIN, QoS
and DUP of the packet — for every well-formed PUBLISH (QoS ≤ 2; identifier present exactly when QoS > 0;
UTF-8 topic below 65536 bytes; lengths within the MQTT limit). -/
theorem C04_decode_publish (topic : Bytes) (id : Option Nat) (props payload : Bytes) (retain : Bool)
    (qos : Nat) (dup : Bool) (hq : qos ≤ 2)
    (hid : match id with
      | some i => 0 < qos ∧ i < 65536
      | none => qos = 0)
    (htl : topic.length < 65536) (htv : validUtf8 topic = true)
    (hpl : props.length ≤ MQTT_VARINT_MAX)
    (hbl : (brokerPublishBody topic id props payload).length ≤ MQTT_VARINT_MAX) :
    fromBuffer (brokerPublish topic id props payload retain qos dup) =
      some (.publish topic id props payload retain qos dup) :=
  fromBuffer_brokerPublish topic id props payload retain qos dup hq hid htl htv hpl hbl

/-! ### Instances -/

/-- A state with one QoS 2 identifier pending, one acknowledgement queued and a full retained list. -/
def C04_ex : SessionData :=
  { outbound := { (Outbound.new 8) with
      control := [{ action := { typ := MT_PubAck, id := 3, rc := 0 }, state := .sent }],
      retained := List.replicate 8 { id := 1, offset := 0, len := 1, state := .sent } },
    pendingServerIds := [7] }

def C04_rt : Runtime := { keepaliveMs := 0, configuredKeepaliveMs := 0 }

/-- Non-vacuity of `C04_qos2_first`, `C04_qos2_duplicate`, `C04_pubrel` (retained list full, arena full). -/
example :
    (handlePacket C04_ex C04_rt (.publish [0x61] (some 9) [] [1] false 2 false)).2.2 = .ok true ∧
    (handlePacket C04_ex C04_rt (.publish [0x61] (some 9) [] [1] false 2 false)).1.pendingServerIds = [7, 9] ∧
    (handlePacket C04_ex C04_rt (.publish [0x61] (some 7) [] [1] false 2 true)).2.2 = .ok false ∧
    ((handlePacket C04_ex C04_rt (.publish [0x61] (some 7) [] [1] false 2 true)).1.outbound.control.map (·.action)) =
      [{ typ := MT_PubAck, id := 3, rc := 0 }, { typ := MT_PubRec, id := 7, rc := 0 }] ∧
    (handlePacket C04_ex C04_rt (.pubRel 7 { code := none, props := none })).1.pendingServerIds = [] ∧
    ((handlePacket C04_ex C04_rt (.pubRel 8 { code := none, props := none })).1.outbound.control.map (·.action)) =
      [{ typ := MT_PubAck, id := 3, rc := 0 }, { typ := MT_PubComp, id := 8, rc := RC_PacketIdNotFound }] := by
  refine ⟨?_, ?_, ?_, ?_, ?_, ?_⟩ <;> first | rfl | decide

/-- Non-vacuity of `C04_decode_publish`: a QoS 1 retained PUBLISH of topic "a" with identifier 0x0102,
an empty property block and payload `05 06`. -/
example : brokerPublish [0x61] (some 0x0102) [] [5, 6] true 1 false = [0x33, 8, 0, 1, 0x61, 1, 2, 0, 5, 6] ∧
    fromBuffer [0x33, 8, 0, 1, 0x61, 1, 2, 0, 5, 6] = some (.publish [0x61] (some 0x0102) [] [5, 6] true 1 false) := by
  decide

/-- A control queue with all `MAX_PENDING_CONTROL` slots taken (eight unsent acknowledgements). -/
def C04_full : SessionData :=
  { outbound := { (Outbound.new 8) with
      control := List.replicate 8 { action := { typ := MT_PubAck, id := 3, rc := 0 }, state := .write 0 } } }

/-- **FINDING.** An inbound QoS 2 PUBLISH that arrives while the control queue is full is lost: the
poll reports `InflightExhausted` (the connection stays up, `process_received_packet` only disconnects
on three other errors), nothing is delivered, no PUBREC is queued, but identifier 9 has already been
recorded — so when the broker retransmits the PUBLISH (here: after the queue has drained) it is taken
for a duplicate and not delivered either. -/
theorem C04_finding_qos2_lost_when_control_full :
    let p : Recv := .publish [0x61] (some 9) [] [1] false 2 false
    let step1 := handlePacket C04_full C04_rt p
    step1.2.2 = .error .inflightExhausted ∧ step1.1.pendingServerIds = [9] ∧
    step1.1.outbound.control = C04_full.outbound.control ∧
    (handlePacket { step1.1 with outbound := Outbound.new 8 } C04_rt
      (.publish [0x61] (some 9) [] [1] false 2 true)).2.2 = .ok false := by
  refine ⟨?_, ?_, ?_, ?_⟩ <;> first | rfl | decide

end Minimq
