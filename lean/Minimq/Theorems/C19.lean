import Minimq.Proofs.Table
import Minimq.Directive
/-
C19 — invalid requests are refused locally and leave no trace; QoS capped when asked.

Statements only (lemmas live in `Minimq/Proofs`). The property/context/value table and the
identifiers are regenerated from `/repo/src/properties.rs` on every check (`Generated.lean`), so an
edit of the Rust table is an edit of what these theorems are about.
-/
namespace Minimq
open Gen

/-- The crate's validation table is the specification's table (27 kinds × 5 contexts × all values):
a well-typed property is accepted for a context exactly when MQTT 5 (table 2-4 and the value rules
of section 3) lets a client put it there with that value. Both directions: nothing illegal is
accepted, nothing legal is refused. -/
theorem C19_validFor_iff_spec (c : Ctx) (p : Property) (hwf : p.wf = true) :
    p.validFor c = true ↔
      (Spec.allowedIn (ctxWhere c) p.kind.id = true ∧ Spec.legalValue p.kind.id p.val.num = true) :=
  validFor_iff_spec c p hwf

/-- A whole property list is accepted iff each element is legal (user-supplied lists never contain
undecodable items). -/
theorem C19_list_validFor (c : Ctx) (ps : List Property) :
    (Properties.slice ps).validFor c = true ↔ ∀ p ∈ ps, p.validFor c = true := by
  simp [Properties.validFor, Properties.iter, List.all_eq_true]

/-- SUBSCRIBE with an illegal property or an empty filter list is refused with `InvalidRequest`
before anything else happens: no I/O, no identifier consumed, session state untouched. -/
theorem C19_subscribe_refused_leaves_no_trace (w : World) (r : SubReq)
    (hconn : w.conn.isSome = true) (hlive : w.live = true) (hfut : w.fut = none)
    (hbad : r.topics.isEmpty = true ∨ (Properties.slice r.props).validFor .Subscribe = false) :
    let w' := w.execDirective (.subscribe r)
    w'.sess = w.sess ∧ w'.nets = w.nets ∧ w'.handles = w.handles ∧ w'.conn = w.conn ∧ w'.fut = none ∧
      w'.lastRes = some (.error .invalidRequest) := by
  simp only [World.execDirective, World.startOp]
  have h1 : w.conn.isNone = false := by cases hc : w.conn <;> simp_all
  simp only [h1, World.cancelFut, hfut]
  simp only [Option.isSome_none, Bool.false_eq_true, if_false]
  have hl : World.live { w with wakes := 0, lastIoStarved := false } = true := by
    simpa [World.live] using hlive
  rcases hbad with hb | hb
  · simp [hl, hb, World.finishErr, World.finish, World.emit, World.errName]
  · by_cases he : r.topics.isEmpty = true
    · simp [hl, he, World.finishErr, World.finish, World.emit, World.errName]
    · simp [hl, he, hb, World.finishErr, World.finish, World.emit, World.errName]

/-- The same for UNSUBSCRIBE. -/
theorem C19_unsubscribe_refused_leaves_no_trace (w : World) (r : UnsubReq)
    (hconn : w.conn.isSome = true) (hlive : w.live = true) (hfut : w.fut = none)
    (hbad : r.topics.isEmpty = true ∨ (Properties.slice r.props).validFor .Unsubscribe = false) :
    let w' := w.execDirective (.unsubscribe r)
    w'.sess = w.sess ∧ w'.nets = w.nets ∧ w'.handles = w.handles ∧ w'.conn = w.conn ∧ w'.fut = none ∧
      w'.lastRes = some (.error .invalidRequest) := by
  simp only [World.execDirective, World.startOp]
  have h1 : w.conn.isNone = false := by cases hc : w.conn <;> simp_all
  simp only [h1, World.cancelFut, hfut]
  simp only [Option.isSome_none, Bool.false_eq_true, if_false]
  have hl : World.live { w with wakes := 0, lastIoStarved := false } = true := by
    simpa [World.live] using hlive
  rcases hbad with hb | hb
  · simp [hl, hb, World.finishErr, World.finish, World.emit, World.errName]
  · by_cases he : r.topics.isEmpty = true
    · simp [hl, he, World.finishErr, World.finish, World.emit, World.errName]
    · simp [hl, he, hb, World.finishErr, World.finish, World.emit, World.errName]

/-- DISCONNECT with an illegal property is refused the same way (the handle stays usable). -/
theorem C19_disconnect_refused_leaves_no_trace (w : World) (d : Disconnect) (ps : List Property)
    (hconn : w.conn.isSome = true) (hlive : w.live = true) (hfut : w.fut = none)
    (hps : d.props = some ps) (hbad : (Properties.slice ps).validFor .Disconnect = false) :
    let w' := w.execDirective (.disconnect d)
    w'.sess = w.sess ∧ w'.nets = w.nets ∧ w'.handles = w.handles ∧ w'.conn = w.conn ∧ w'.fut = none ∧
      w'.lastRes = some (.error .invalidRequest) := by
  simp only [World.execDirective, World.startOp]
  have h1 : w.conn.isNone = false := by cases hc : w.conn <;> simp_all
  simp only [h1, World.cancelFut, hfut]
  simp only [Option.isSome_none, Bool.false_eq_true, if_false]
  have hl : World.live { w with wakes := 0, lastIoStarved := false } = true := by
    simpa [World.live] using hlive
  simp [hl, hps, hbad, World.finishErr, World.finish, World.emit, World.errName]

/-- **PUBLISH with an illegal property**: `publish` first finishes older outbound work
(`flush_outbound`, which may write and may fail on its own); once that is done the request is refused
with `InvalidRequest` before an identifier is allocated or a byte is encoded: session, transports,
handles and quota are exactly what the flush left. (So "leaves no trace" holds of the *request*; the
flush that precedes it is not part of it.) -/
theorem C19_publish_refused_after_flush (fuel : Nat) (w : World) (r : PubReq)
    (h : r.props.validFor .Publish = false) :
    World.afterFlush (fuel + 1) w (.publishPre r) = w.finishErr "publish" .invalidRequest := by
  simp [World.afterFlush, h]

theorem C19_publish_refused_leaves_no_trace (fuel : Nat) (w : World) (r : PubReq)
    (h : r.props.validFor .Publish = false) :
    let w' := World.afterFlush (fuel + 1) w (.publishPre r)
    w'.sess = w.sess ∧ w'.nets = w.nets ∧ w'.handles = w.handles ∧ w'.conn = w.conn ∧ w'.log = w.log ∧
    w'.lastRes = some (.error .invalidRequest) := by
  intro w'
  have e : w' = w.finishErr "publish" .invalidRequest := C19_publish_refused_after_flush fuel w r h
  rw [e]; exact ⟨rfl, rfl, rfl, rfl, rfl, rfl⟩

/-- **QoS cap.** With auto-downgrade on, the QoS used is at most the broker's Maximum QoS, never above
the requested one, and equal to the requested one when that is within the cap; with auto-downgrade
off, or without a Maximum QoS, it is the requested one. -/
theorem C19_qos_cap (m q : Nat) :
    World.effectiveQos (some m) true q ≤ m ∧ World.effectiveQos (some m) true q ≤ q ∧
    (q ≤ m → World.effectiveQos (some m) true q = q) ∧
    World.effectiveQos (some m) false q = q ∧ (∀ d, World.effectiveQos none d q = q) := by
  unfold World.effectiveQos
  refine ⟨?_, ?_, ?_, ?_, fun _ => rfl⟩
  · simp only [Bool.true_and, decide_eq_true_eq]; split <;> omega
  · simp only [Bool.true_and, decide_eq_true_eq]; split <;> omega
  · intro hq; simp only [Bool.true_and, decide_eq_true_eq]; rw [if_neg (by omega)]
  · simp

/-- Non-vacuity: a live world with a QoS 1 publish in flight satisfies the hypotheses. -/
example : ∃ w : World, w.conn.isSome = true ∧ w.live = true ∧ w.fut = none ∧
    w.sess.data.outbound.retained ≠ [] :=
  ⟨{ sess := { (Session.new { rx := 64, tx := 64, keepaliveS := 60, expiry := 0, downgrade := false,
                              clientId := [], auth := none, will := none }) with
                data := { outbound := { (Outbound.new 64) with
                  retained := [{ id := 1, offset := 3, len := 9, state := .sent }], used := 12 } } },
     conn := some { live := true, resumed := false } },
   by simp, by simp [World.live], rfl, by simp⟩

end Minimq
