import Minimq.Proofs.FinCongr
import Minimq.Theorems.C13Machine
/-
C13, the last step — "after both runs have completed, further operations behave identically".

`Theorems/C13Machine.lean` shows that the run that resumes a suspended operation (run A) and the run that
drops the future and polls (run B) agree, once both operations have completed, on `World.fin`: everything
except the trace, the suspended future (none in both), the per-POLL flags `wakes` / `lastIoStarved`, and
`handles` / `lastRes` (run A registered the handle of its publish, run B did not). This file proves that
these are exactly fields the machine never reads:

 * `handles` is only appended to, and its length printed (`finishOp`: `ret <name> ok op <k> …`);
 * `lastRes` is only overwritten;
 * the trace is only prepended to;
 * `wakes` and `lastIoStarved` are reset by every POLL and every operation start before they are read.

So from two worlds that agree on `fin` and on the suspended future every directive — hence every program
— leads to two worlds that agree on `fin` and on the suspended future again
(`C13_machine_ignores_handles_and_results`, `C13_continuations_agree`); both register the same new
handles and print the same new trace lines (so: deliver the same messages, return the same results), the
only difference being the handle index in `ret <name> ok op <k> …` lines, which is shifted by the
difference of the numbers of handles at the start (`C13_continuations_print_the_same`). Plugged into the
simulation: `C13_post_then_any_program`.

The proof (`Proofs/FinCongr.lean`) has the structure of `Proofs/OutFrame.lean`: one relation `HSim`,
preserved by each session-independent primitive, by the thirteen machine functions (induction on fuel),
by `poll`, and by every directive.
-/
namespace Minimq
open Gen World Outbound

/-- `fin` and the suspended future, spelled out: the hypothesis of the theorems below says that the two
worlds have the same session, connection handle, transports, time, pending I/O decision, torn marks,
transmission log and suspended future. Nothing is assumed about handles, last result, trace, flags. -/
theorem C13_fin_fut_iff (a b : World) :
    (a.fin = b.fin ∧ a.fut = b.fut) ↔
      (a.sess = b.sess ∧ a.conn = b.conn ∧ a.nets = b.nets ∧ a.fut = b.fut ∧ a.now = b.now ∧ a.slot = b.slot ∧
        a.tornNets = b.tornNets ∧ a.log = b.log) := by
  constructor
  · rintro ⟨h, hf⟩
    obtain ⟨h1, h2, h3, h4, h5, h6, h7⟩ := C13_fin_fields h
    exact ⟨h1, h2, h3, hf, h4, h5, h6, h7⟩
  · rintro ⟨h1, h2, h3, hf, h4, h5, h6, h7⟩
    refine ⟨?_, hf⟩
    unfold World.fin World.rest
    simp only [h1, h2, h3, h4, h5, h6, h7]

/-- The line `finishOp` prints (`opLine`), and where the handle goes: the `k` in the line is the number
of handles registered before. -/
theorem C13_finishOp_line (w : World) (name : String) (op : Op) :
    (w.finishOp name op).out = opLine name op w.handles.length w.now :: w.out ∧
    (w.finishOp name op).handles = w.handles ++ [op] ∧
    opLine name op w.handles.length w.now =
      s!"{s!"ret {name} ok op {w.handles.length} {opKindName op.kind} {op.id} {op.generation}"} @{w.now}" :=
  ⟨rfl, rfl, rfl⟩

/-- **The machine never reads `handles`, `lastRes`, the trace or the stale per-POLL flags.** Take two
worlds with the same session, connection, transports, time, I/O decision, torn marks, log and suspended
future — whatever their handle lists, last results, traces and flags. Every directive (starting any
operation, one POLL with any decision, `go`, `tick`, `rx`, `cancel`, `drop`, …) takes them to two worlds
that again agree on all of those. For the Rust code: what the client does next does not depend on which
`Operation` handles the application holds or on what earlier calls returned. -/
theorem C13_machine_ignores_handles_and_results (a b : World) (h : a.fin = b.fin) (hf : a.fut = b.fut)
    (d : Directive) :
    (a.execDirective d).fin = (b.execDirective d).fin ∧ (a.execDirective d).fut = (b.execDirective d).fut := by
  have := fin_congr h hf [d]
  exact ⟨this.1, this.2.1⟩

/-- The same for the thirteen machine functions themselves (`CongrM` in `Proofs/FinCongr.lean` lists
them: flush loop, outbound step and its two awaits, the continuations of the operations, the local
`write_all` / flush, the CONNACK read, `drive_packet` and its read), at any fuel: each takes worlds related
by `HSim ha hb` — equal up to handles, last result and trace; handles `ha.handles ++ ops` and
`hb.handles ++ ops`; traces equal up to the handle indices — to worlds related by `HSim ha hb`. -/
theorem C13_machine_functions_ignore_handles (ha hb : World) (fuel : Nat) : CongrM ha hb fuel :=
  congr_all ha hb fuel

/-- `HSim` holds to begin with for any two worlds that differ only in handles, last result and trace
(here: trace of the first empty or equal to that of the second). -/
example (w : World) (hs : List Op) (lr : Option (Except Err Unit)) :
    HSim ({ w with handles := hs, lastRes := lr } : World) w ({ w with handles := hs, lastRes := lr } : World) w :=
  HSim.init rfl (TrRel.refl _ _ _)

/-- **Programs.** From two such worlds, every program leads to two such worlds: the continuations of the
two runs agree, directive by directive, on session, connection, transports, time, log and on whether /
where an operation is suspended. -/
theorem C13_continuations_agree (a b : World) (h : a.fin = b.fin) (hf : a.fut = b.fut) (ds : List Directive) :
    (ds.foldl World.execDirective a).fin = (ds.foldl World.execDirective b).fin ∧
    (ds.foldl World.execDirective a).fut = (ds.foldl World.execDirective b).fut := by
  have := fin_congr h hf ds
  exact ⟨this.1, this.2.1⟩

/-- **Delivered messages and results agree.** The two continuations register the same new handles
(`ops`), and print new trace lines `newA`, `newB` of the same number that are equal position by position
— so the same `msg` lines (delivered messages), the same `ret … err …` / `ret … ok …` lines (results), the
same I/O events — except that where run A prints the `finishOp` line with handle index
`a.handles.length + i`, run B prints the same line (same operation name, same `Op`, same time) with index
`b.handles.length + i`, and `op` is the `i`-th new handle in both. If the two runs start with the same
number of handles the new lines are equal. The last results agree as soon as anything completed. -/
theorem C13_continuations_print_the_same (a b : World) (h : a.fin = b.fin) (hf : a.fut = b.fut)
    (ds : List Directive) :
    let a' := ds.foldl World.execDirective a
    let b' := ds.foldl World.execDirective b
    (∃ ops newA newB, a'.handles = a.handles ++ ops ∧ b'.handles = b.handles ++ ops ∧
      a'.out = newA ++ a.out ∧ b'.out = newB ++ b.out ∧ newA.length = newB.length ∧
      (∀ (n : Nat) (la lb : String), newA[n]? = some la → newB[n]? = some lb →
        la = lb ∨ ∃ name op i now, ops[i]? = some op ∧
          la = opLine name op (a.handles.length + i) now ∧ lb = opLine name op (b.handles.length + i) now) ∧
      (a.handles.length = b.handles.length → newA = newB)) ∧
    (a'.lastRes = b'.lastRes ∨ (a'.lastRes = a.lastRes ∧ b'.lastRes = b.lastRes)) := by
  intro a' b'
  obtain ⟨_, _, ⟨ops, newA, newB, e1, e2, e3, e4, ht⟩, h5⟩ := fin_congr h hf ds
  refine ⟨⟨ops, newA, newB, e1, e2, e3, e4, ht.length, ht.get, ?_⟩, h5⟩
  intro hl
  rw [hl] at ht
  exact ht.eq_of_eq

/-- **Plugged into the simulation.** Run A is suspended in the second flush of a publish (QoS 1/2),
subscribe or unsubscribe — the request is enqueued — and run B has dropped that future and polls
(`RF (.post name op) a b`, established by `C13_reentry_write` / `C13_reentry_flush` +
`C13_reentry_gives_RF`). Drive both with the same list `ks` of I/O decisions, one POLL each. Then either
both are still suspended at corresponding await points in the same state; or both operations have
completed, and from there on EVERY program `ds` — further publishes, polls, ticks, inbound bytes,
reconnects — takes the two runs through the same sessions, connections, transports, times and logs, makes
them register the same further handles, and print the same trace lines up to the handle index (`TrRel`,
spelled out in `C13_continuations_print_the_same`; run A holds one handle more: that of the completed
operation). Dropping the future and polling on is
indistinguishable, for everything that follows, from having awaited the operation — except that the
application did not get the handle. -/
theorem C13_post_then_any_program {name : String} {op : Op} {a b : World} (h : RF (.post name op) a b)
    (ks : List Nat) :
    let a1 := runD ks a
    let b1 := runD ks b
    RF (.post name op) a1 b1 ∨
    (a1.fut = none ∧ b1.fut = none ∧ a1.fin = b1.fin ∧
      ∀ ds : List Directive,
        let a' := ds.foldl World.execDirective a1
        let b' := ds.foldl World.execDirective b1
        a'.fin = b'.fin ∧ a'.fut = b'.fut ∧
        (∃ ops newA newB, a'.handles = a1.handles ++ ops ∧ b'.handles = b1.handles ++ ops ∧
          a'.out = newA ++ a1.out ∧ b'.out = newB ++ b1.out ∧
          TrRel a1.handles.length b1.handles.length ops newA newB) ∧
        (a'.lastRes = b'.lastRes ∨ (a'.lastRes = a1.lastRes ∧ b'.lastRes = b1.lastRes))) := by
  exact h.post_then_any_program ks

/-! ### Examples -/

/-- The hypotheses are satisfiable with different handles, results, traces and flags: any world against
the same world with another handle list, another last result, another trace and other flags. -/
example (w : World) (o : Op) :
    let b : World := { w with handles := w.handles ++ [o], lastRes := some (.error .notReady), out := "x" :: w.out,
                              wakes := w.wakes + 1, lastIoStarved := !w.lastIoStarved }
    w.fin = b.fin ∧ w.fut = b.fut ∧ w.handles ≠ b.handles := by
  refine ⟨rfl, rfl, ?_⟩
  intro h
  have := congrArg List.length h
  simp at this

/-- The suspended world of `C13Machine` (a QoS 1 publish of which 3 of 9 bytes are written, suspended in
its second flush) passes the check `suspendedInPost "publish"` — suspended at the `write` await of the
outbound step inside the second flush of a publish, at the world's time, transport not torn, no inbound
packet waiting, keep-alive timers not armed — so it and the same world after the future was dropped and
`poll` started satisfy `RF (.post "publish" op)`: the hypothesis of `C13_post_then_any_program`. -/
theorem C13M_pre1_RF :
    ∃ op, RF (.post "publish" op) (C13M_pre1.foldl World.execDirective { sess := Session.new C13M_cfg })
      ((C13M_pre1.foldl World.execDirective { sess := Session.new C13M_cfg }).execDirective .poll) :=
  RF_of_suspendedInPost C13M_cfg C13M_pre1 "publish" (by decide +kernel)

/-- **The concrete pair.** Run A: the publish is resumed and completes (`.d 250` twice: the write, the
flush). Run B: the future is dropped, `poll` is started and driven with the same decisions. Both have
completed; they agree on `fin` and on the future — the hypotheses of the theorems above — while run A
holds one handle and run B none; and every further program keeps them in agreement. -/
example :
    let w := C13M_pre1.foldl World.execDirective { sess := Session.new C13M_cfg }
    let wA := runD [250, 250] w
    let wB := runD [250, 250] (w.execDirective .poll)
    wA.fin = wB.fin ∧ wA.fut = wB.fut ∧ wA.handles.length = 1 ∧ wB.handles.length = 0 ∧
    ∀ ds : List Directive, (ds.foldl World.execDirective wA).fin = (ds.foldl World.execDirective wB).fin := by
  intro w wA wB
  obtain ⟨op, hrf⟩ := C13M_pre1_RF
  have hd : wA.fut.isNone = true ∧ wA.handles.length = 1 ∧ wB.handles.length = 0 := by decide +kernel
  rcases C13_post_then_any_program hrf [250, 250] with hr | ⟨fa, fb, hfin, hall⟩
  · obtain ⟨pa, _, hpa, _, _⟩ := hr.pcs
    have : wA.fut = some pa := hpa
    rw [this] at hd
    cases hd.1
  · exact ⟨hfin, by rw [show wA.fut = none from fa, show wB.fut = none from fb], hd.2.1, hd.2.2,
      fun ds => (hall ds).1⟩

/-- …for instance a second publish, completed in both: both runs register the same new handle (packet
identifier 2), run A as its second and run B as its first — `ret publish ok op 1 …` against
`ret publish ok op 0 …` in the traces — and the PUBLISH goes out on the same wire. -/
example :
    let w := C13M_pre1.foldl World.execDirective { sess := Session.new C13M_cfg }
    let wA := ([C13M_pub, .d 250, .d 250] : List Directive).foldl World.execDirective (runD [250, 250] w)
    let wB := ([C13M_pub, .d 250, .d 250] : List Directive).foldl World.execDirective (runD [250, 250] (w.execDirective .poll))
    wA.handles.length = 2 ∧ wB.handles.length = 1 ∧ wA.handles.drop 1 = wB.handles ∧
    wB.handles.map (fun (o : Op) => o.id) = [2] ∧ wA.fut.isNone = true ∧ wB.fut.isNone = true ∧
    wA.nets.map (fun (n : Net) => n.wire) = wB.nets.map (fun (n : Net) => n.wire) := by
  decide +kernel

end Minimq
