import Minimq.Proofs.FuelAdequate
/-
C16 (part) — every POLL does a bounded amount of work: the fuel of the model is never exhausted.

The model writes the asynchronous operations (`session/handshake.rs`, `operations.rs`, `drive.rs`)
as thirteen mutually recursive functions with a fuel argument; with fuel 0 each prints the trace
line `fuel` and stops. The model is an honest model of the Rust code only if that never happens.

What is proved (for every world, reachable or not — no invariant is needed):

 * a measure `Call.rank` of a call (function + arguments + world) that strictly decreases along every
   tail call (`run_step`), built from: the one I/O decision a POLL holds (`slot`), the remaining
   timer self-wakes (`63 - wakes`), the state of the receive buffer (a complete packet is consumed
   once), and a small position inside the loop. It never exceeds 354, and `pollFuel` is 4000;
 * hence, with fuel ≥ rank (in particular with any fuel ≥ 354) the result does not depend on the
   fuel, the line `fuel` is not printed, and the run ends at a genuine resting point (suspended at an
   await point, or completed with a result) — `C16_fuel_adequate`, `C16_fuel_adequate_all`,
   `C16_fuel_never_exhausted`;
 * the same for a whole `poll`, `startConnect`, every directive and every program:
   `C16_fuel_poll_independent`, `C16_fuel_startConnect_independent`, `C16_fuel_exec_never_exhausted`,
   `C16_fuel_never_in_trace` (no program text makes the model print `fuel`);
 * a `poll()`/`recv()` completes without error only if something could advance
   (`C16_poll_ok_needs_progress`, `C16_poll_ok_only_after_progress`, `C16_poll_idle_waits`,
   `C16_poll_start_idle_waits`);
 * one POLL uses its I/O decision at most once, by one I/O call; without a decision the transports
   are not touched (`C16_poll_io_decision`, `C16_poll_no_decision_no_io`, `C16_fuel_call_io`).
-/
namespace Minimq
open Gen World Fuel

/-! ### 1. Fuel adequacy -/

/-- With fuel 0 every one of the thirteen functions prints `fuel` — the marker whose absence the
theorems below establish (so they are not vacuous: the marker does appear when fuel runs out). -/
theorem C16_fuel_marker (c : Call) : (c.run 0).out = "fuel" :: c.world.out := by
  rw [Call.run_zero]; rfl

/-- **The measure is bounded.** Whatever the function, its arguments and the world: the rank is at
most 354, and `poll`, `startConnect` and the directives start every operation with 4000. -/
theorem C16_fuel_rank_bounded (c : Call) : c.rank ≤ fuelBound ∧ fuelBound ≤ pollFuel :=
  ⟨c.rank_le, fuelBound_le_pollFuel⟩

/-- **The measure decreases.** One step of any of the thirteen functions, with any fuel `m + 1`,
either finishes with a result that does not depend on `m`, or continues as one other call with fuel
`m` — the same call for every `m` — whose rank is strictly smaller. -/
theorem C16_fuel_step (c : Call) :
    (∃ c' : Call, c'.rank < c.rank ∧ ∀ m, c.run (m + 1) = c'.run m) ∨ (∃ r, ∀ m, c.run (m + 1) = r) := by
  cases run_step c with
  | call c' e h => exact .inl ⟨c', e.rank, h⟩
  | done r _ h => exact .inr ⟨r, h⟩

/-- **Fuel adequacy, state-dependent bound.** With at least `rank` fuel, more fuel changes nothing. -/
theorem C16_fuel_adequate_rank (c : Call) (f : Nat) (hf : c.rank ≤ f) : c.run f = c.run c.rank :=
  run_stable c f hf

/-- **Fuel adequacy, uniform bound.** For every one of the thirteen functions, all arguments and every
world: any fuel `f ≥ 354` gives the same result as fuel 354. In particular `pollFuel = 4000` does. -/
theorem C16_fuel_adequate (c : Call) (f : Nat) (hf : fuelBound ≤ f) : c.run f = c.run fuelBound :=
  run_uniform c f hf

/-- The same, spelled out for the thirteen functions. -/
theorem C16_fuel_adequate_all (f : Nat) (hf : 354 ≤ f) :
    (∀ w k, flushLoop f w k = flushLoop 354 w k) ∧
    (∀ w ctx step now, performStep f w ctx step now = performStep 354 w ctx step now) ∧
    (∀ w ctx pkt bytes wr len now, doStepWrite f w ctx pkt bytes wr len now = doStepWrite 354 w ctx pkt bytes wr len now) ∧
    (∀ w ctx pkt now, doStepFlush f w ctx pkt now = doStepFlush 354 w ctx pkt now) ∧
    (∀ w ctx adv, stepReturned f w ctx adv = stepReturned 354 w ctx adv) ∧
    (∀ w k, afterFlush f w k = afterFlush 354 w k) ∧
    (∀ w which bytes, doLocalWrite f w which bytes = doLocalWrite 354 w which bytes) ∧
    (∀ w which, doLocalFlush f w which = doLocalFlush 354 w which) ∧
    (∀ w, doConnRead f w = doConnRead 354 w) ∧
    (∀ w o adv, driveLoop f w o adv = driveLoop 354 w o adv) ∧
    (∀ w o adv, driveAfterService f w o adv = driveAfterService 354 w o adv) ∧
    (∀ w o, driveEnter f w o = driveEnter 354 w o) ∧
    (∀ w o d y, doWaitRead f w o d y = doWaitRead 354 w o d y) :=
  ⟨fun w k => run_uniform (.FL w k) f hf,
   fun w ctx step now => run_uniform (.PS w ctx step now) f hf,
   fun w ctx pkt bytes wr len now => run_uniform (.DSW w ctx pkt bytes wr len now) f hf,
   fun w ctx pkt now => run_uniform (.DSF w ctx pkt now) f hf,
   fun w ctx adv => run_uniform (.SR w ctx adv) f hf,
   fun w k => run_uniform (.AF w k) f hf,
   fun w which bytes => run_uniform (.DLW w which bytes) f hf,
   fun w which => run_uniform (.DLF w which) f hf,
   fun w => run_uniform (.DCR w) f hf,
   fun w o adv => run_uniform (.DL w o adv) f hf,
   fun w o adv => run_uniform (.DAS w o adv) f hf,
   fun w o => run_uniform (.DE w o) f hf,
   fun w o d y => run_uniform (.DWR w o d y) f hf⟩

/-- **The fuel is never exhausted.** With at least `rank` fuel (so with `pollFuel`) the trace is
extended only by lines other than `fuel`, and the run ends suspended at an await point or completed
with a result — not in the middle of the synchronous code. -/
theorem C16_fuel_never_exhausted (c : Call) (f : Nat) (hf : c.rank ≤ f) :
    (∃ new, (c.run f).out = new ++ c.world.out ∧ "fuel" ∉ new) ∧
    ((c.run f).fut.isSome = true ∨ (c.run f).lastRes.isSome = true) := by
  have fin := run_final c f hf
  obtain ⟨new, e, hn⟩ := fin.rel.quiet
  exact ⟨⟨new, e, fun hm => hn _ hm rfl⟩, fin.settled⟩

/-- **A whole POLL does not depend on the fuel**: `poll` is `pollWith pollFuel`, and `pollWith f` is
the same function for every `f ≥ 354`. -/
theorem C16_fuel_poll_independent (w : World) (f : Nat) (hf : fuelBound ≤ f) :
    World.poll w = World.pollWith f w := by
  rw [poll_eq_pollWith, pollWith_uniform w pollFuel fuelBound_le_pollFuel, pollWith_uniform w f hf]

/-- …and neither does `Session::connect` up to its first await. -/
theorem C16_fuel_startConnect_independent (w : World) (f : Nat) (hf : fuelBound ≤ f) :
    w.startConnect = w.startConnectWith f := by
  rw [startConnect_eq_with, startConnectWith_uniform w pollFuel fuelBound_le_pollFuel,
    startConnectWith_uniform w f hf]

/-- **No POLL prints `fuel`.** -/
theorem C16_fuel_poll_never_exhausted (w : World) :
    ∃ new, (World.poll w).out = new ++ w.out ∧ "fuel" ∉ new := by
  obtain ⟨new, e, hn⟩ := quiet_poll w
  exact ⟨new, e, fun hm => hn _ hm rfl⟩

/-- **No directive prints `fuel`** — starting an operation (`connect`, `publish`, `subscribe`,
`unsubscribe`, `disconnect`, `poll`, `recv`, `drive`), polling it (`d n`, `tick`), running it to
completion (`go`), or anything else. -/
theorem C16_fuel_exec_never_exhausted (w : World) (d : Directive) :
    ∃ new, (w.execDirective d).out = new ++ w.out ∧ "fuel" ∉ new := by
  obtain ⟨new, e, hn⟩ := quiet_execDirective w d
  exact ⟨new, e, fun hm => hn _ hm rfl⟩

/-- …nor does any sequence of directives. -/
theorem C16_fuel_run_never_exhausted (w : World) (ds : List Directive) :
    ∃ new, (ds.foldl World.execDirective w).out = new ++ w.out ∧ "fuel" ∉ new := by
  obtain ⟨new, e, hn⟩ := quiet_run ds w
  exact ⟨new, e, fun hm => hn _ hm rfl⟩

/-- **No program makes the model print `fuel`**: the trace of `runProgram`, for any program text,
does not contain that line. The fuel is an artefact of the definition, not of the behaviour. -/
theorem C16_fuel_never_in_trace (text : String) : "fuel" ∉ runProgram text :=
  fuel_not_in_runProgram text

/-! ### 2. `poll()` does not return empty-handed without progress -/

/-- **A POLL that completes `poll()`/`recv()` successfully had something to advance.** Let the
suspended operation be a `poll()` or `recv()` whose `drive_packet` round has not advanced anything so
far — neither in this POLL nor in an earlier one (`pc.idle`: the `advanced` flag carried by the await
point is false) — and let the receive buffer hold no complete packet. Then the POLL either leaves the
operation suspended, or fails it, or it performed an I/O call (it used up its I/O decision). It never
completes with `Ok` out of nothing. -/
theorem C16_poll_ok_needs_progress (w : World) (pc : Pc) (hf : w.fut = some pc) (hi : pc.idle = true)
    (hb : w.sess.reader.cls = 0) :
    ((World.poll w).fut.isSome = true ∨ ∃ e, (World.poll w).lastRes = some (.error e)) ∨
    (w.slot.isSome = true ∧ (World.poll w).slot = none) :=
  poll_idle w pc hf hi hb

/-- **`poll()` returns without error only after progress** — the same in positive form. If a POLL
completes a `poll()`/`recv()` with `Ok` (that includes `ret poll ok none`), then the `drive_packet`
round had already advanced in an earlier POLL (the await point carried `advanced = true`: a write had
accepted bytes or a flush had completed), or a complete packet was lying in the receive buffer, or
this POLL performed an I/O call. -/
theorem C16_poll_ok_only_after_progress (w : World) (pc : Pc) (o : Outer) (adv : Bool) (hf : w.fut = some pc)
    (hop : pc.driveOp = some (o, adv)) (ho : o ≠ .drive)
    (hok : (World.poll w).fut = none ∧ (World.poll w).lastRes = some (.ok ())) :
    adv = true ∨ w.sess.reader.cls ≠ 0 ∨ (w.slot.isSome = true ∧ (World.poll w).slot = none) :=
  poll_ok_progress w pc o adv hf hop ho hok

/-- **An idle POLL waits.** As above, and the transport has nothing to offer (no I/O decision: every
I/O call of this POLL is pending): the operation stays suspended (on the transport read, with the
keep-alive deadline) or fails (keep-alive timeout, resource errors); it does not return `Ok(None)`. -/
theorem C16_poll_idle_waits (w : World) (pc : Pc) (hf : w.fut = some pc) (hi : pc.idle = true)
    (hb : w.sess.reader.cls = 0) (hs : w.slot = none) :
    (World.poll w).fut.isSome = true ∨ ∃ e, (World.poll w).lastRes = some (.error e) := by
  rcases poll_idle w pc hf hi hb with h | ⟨h, _⟩
  · exact h
  · rw [hs] at h; simp at h

/-- The same for the first POLL of the operation (`poll()` / `recv()` has just been called). -/
theorem C16_poll_start_idle_waits (w : World) (o : Outer) (ho : o ≠ .drive) (hb : w.sess.reader.cls = 0)
    (hs : w.slot = none) :
    (driveEnter pollFuel w o).fut.isSome = true ∨ ∃ e, (driveEnter pollFuel w o).lastRes = some (.error e) := by
  rcases start_idle w o ho hb with h | ⟨h, _⟩
  · exact h
  · rw [hs] at h; simp at h

/-- What "no complete packet in the receive buffer" (`cls = 0`) means: no packet is known to be
available, and `receive_buffer` does not offer an empty window (which is how the reader says that
the packet whose length it has just probed is already complete). -/
theorem C16_poll_buffer_empty_iff (r : Reader) : r.cls = 0 ↔
    r.packetAvailable = false ∧ ∀ r1 n, r.receiveWindow = some (r1, n) → n ≠ 0 :=
  cls_zero_iff r

/-! ### 3. One POLL, at most one I/O call -/

/-- **Every run of the thirteen functions uses the I/O decision at most once.** Either the decision
is still there at the end and the transports are untouched, or there was one and it has been
consumed, and the transports differ by what one I/O call does: the current transport got bytes
appended to its wire, or lost bytes from the front of its receive queue. -/
theorem C16_fuel_call_io (c : Call) (f : Nat) (hf : c.rank ≤ f) :
    ((c.run f).slot = c.world.slot ∧ (c.run f).nets = c.world.nets) ∨
    (c.world.slot.isSome = true ∧ (c.run f).slot = none ∧ OneIo c.world.nets (c.run f).nets) :=
  (run_final c f hf).rel.io

/-- The same for a whole POLL. -/
theorem C16_poll_io_decision (w : World) :
    ((World.poll w).slot = w.slot ∧ (World.poll w).nets = w.nets) ∨
    (w.slot.isSome = true ∧ (World.poll w).slot = none ∧ OneIo w.nets (World.poll w).nets) :=
  (poll_rel w).io

/-- **Without a decision nothing is written or read.** -/
theorem C16_poll_no_decision_no_io (w : World) (hs : w.slot = none) :
    (World.poll w).nets = w.nets ∧ (World.poll w).slot = none := by
  rcases (poll_rel w).io with ⟨a, b⟩ | ⟨a, _⟩
  · exact ⟨b, by rw [a, hs]⟩
  · rw [hs] at a; simp at a

/-! ### Non-vacuity -/

/-- A freshly connected, idle session: 16-byte buffers, nothing queued, nothing received. -/
def fuelExampleWorld : World :=
  { sess := Session.new { rx := 16, tx := 16, keepaliveS := 0, expiry := 0, downgrade := false, clientId := [],
                          auth := none, will := none },
    conn := some { live := true, resumed := false }, nets := [{}],
    fut := some (.waitRead .poll none true) }

/-- The hypotheses of `C16_poll_idle_waits` hold for it… -/
example : fuelExampleWorld.fut = some (.waitRead .poll none true) ∧ (Pc.waitRead .poll none true).idle = true ∧
    fuelExampleWorld.sess.reader.cls = 0 ∧ fuelExampleWorld.slot = none := ⟨rfl, rfl, by decide, rfl⟩

/-- …and so do those of `C16_poll_ok_needs_progress` for an operation suspended in a write. -/
example : (Pc.stepWrite (.drive false .recv) (.release 1) [1, 2] 0 2 0).idle = true := by decide

/-- `pc.idle` is not always true: it fails once the round has advanced, and for `drive()`. -/
example : (Pc.stepWrite (.drive true .poll) (.release 1) [1, 2] 0 2 0).idle = false ∧
    (Pc.waitRead .drive none true).idle = false := by decide

/-- The rank of a concrete call: entering `poll()` on the idle session, 319 ≤ 354. -/
example : (Call.DE { fuelExampleWorld with fut := none } .poll).rank = 319 := by decide

/-! ### A corner of the model: the decision `0`

"Performed an I/O call" in `C16_poll_ok_needs_progress` cannot be sharpened to "put at least one byte
on the wire or took one off it" for *every* world of the model: `ioWrite` with the decision `0`
returns `ok 0` (an accepted write of zero bytes), which `doStepWrite` counts as progress, where the
Rust code treats `Ok(0)` from the transport as `WriteZero` (that outcome is the decision 251 in the
model). The parser rejects `d 0` (`bad-op`), so no program text reaches this; `Directive.d 0` as a
value does. -/

/-- A `poll()` suspended in the write of a PUBREL, resumed with the decision `0`. -/
def fuelZeroWriteWorld : World :=
  { fuelExampleWorld with fut := some (.stepWrite (.drive false .poll) (.release 1) [1, 2, 3] 0 3 0), slot := some 0 }

/-- It completes with `Ok` (`ret poll ok none`) although the transports are exactly as before. -/
example : (World.poll fuelZeroWriteWorld).lastRes = some (.ok ()) ∧ (World.poll fuelZeroWriteWorld).fut = none ∧
    (World.poll fuelZeroWriteWorld).nets = fuelZeroWriteWorld.nets := by
  have h : World.poll fuelZeroWriteWorld =
      doStepWrite (3997 + 1 + 1 + 1) { fuelZeroWriteWorld with wakes := 0, lastIoStarved := false, fut := none }
        (.drive false .poll) (.release 1) [1, 2, 3] 0 3 0 := rfl
  have h1 : fuelExampleWorld.sess.reader.packetAvailable = false := by decide
  have h2 : (fuelExampleWorld.sess.setWritten (Flushed.release 1) 0 3).data.outbound.nextStep = none := by decide
  have h3 : fuelExampleWorld.nets = [{}] := rfl
  rw [h, doStepWrite]
  simp [World.ioWrite, fuelZeroWriteWorld, World.setWritten, stepReturned, World.setCurNet, World.curNet, World.emit, h3]
  unfold driveAfterService
  simp [World.finish, World.emit, h1, h2]

end Minimq
