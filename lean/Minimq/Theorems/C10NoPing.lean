import Minimq.Proofs.NoPing
import Minimq.Theorems.C16Quiesce
/-
C10 — "a keep-alive of zero sends no pings", for the transmission log of every program.

`C10_zero_keepalive_no_pings` (`Theorems/C10.lean`) says that under keep-alive 0 there is no PINGREQ timer and
`maybe_queue_pingreq` queues nothing. That leaves open whether a PINGREQ can still reach the transport — one
that was queued earlier, under another keep-alive, or one whose write is suspended. Here: it cannot.

The transmission log (`World.log`, ghost; `Theorems/C02Wire.lean`) records every queue entry —
acknowledgement, PINGREQ, PUBREL, retained packet — at the moment the transport has accepted its last byte,
with the ordinal of the transport; `w.curLog` is the part that belongs to the current transport (a transport
is opened by `connect` and serves at most one connection). A PINGREQ is only ever sent as a queue entry
(`ControlAction` with `typ = MT_PingReq`), so "no PINGREQ entry in `curLog`" is "no PINGREQ was handed to the
current transport completely".

`Runtime.keepaliveMs` is the effective keep-alive: the broker's Server Keep Alive if the CONNACK carried one,
else the configured value (`C10_effective_keepalive`). Of all session primitives only `activate` — the
processing of a CONNACK with a success code, called from `connect_handshake` and nowhere else — writes it
(`C10_keepalive_set_by_connack_only`); `handle_disconnect` does not reset it. So between two CONNACKs it is
constant, and on a live handle it is the keep-alive negotiated for this connection; while the handle is dead or
a handshake is running it still holds the value of the previous connection (or the configured one). The
theorems below do not need the handle to be live: they hold whenever the field is 0.

The invariant behind them (`NpInv`, `Proofs/NoPing.lean`) is not a property of the session alone: that no
PINGREQ is queued when a CONNACK sets the keep-alive to 0 holds because `begin_connect` ran before
(`arm_replay` drops queued PINGREQs — the repair of F22, `C10_no_stale_pingreq`), and because the operation
whose write of a PINGREQ was suspended has been dropped by `connect`.

Not proved here (no cheap route): the statement about the bytes on the wire, "no frame `C0 00` on the current
transport". `C02_logged_packets_are_on_the_wire` gives one direction only (every logged packet is a frame on
the wire); the converse — every frame behind the CONNECT is a logged entry, a QoS 0 PUBLISH or a DISCONNECT —
is not part of the wire invariant.
-/
namespace Minimq
open Gen World Outbound

/-- **Keep-alive 0: no PINGREQ reaches the current transport.** After any program — API calls, I/O
decisions, inbound bytes of any kind, ticks of any length, cancellations, drops, reconnects —, whenever the
effective keep-alive is 0, no entry of the transmission log of the current transport is a PINGREQ (a control
action of type 12, whatever its other fields). The handle need not be live. -/
theorem C10_no_pingreq_logged_when_zero (cfg : Cfg) (ds : List Directive) :
    let w := ds.foldl World.execDirective { sess := Session.new cfg }
    w.sess.rt.keepaliveMs = 0 → ∀ f ∈ w.curLog, ∀ a, f.tag = .control a → a.typ ≠ MT_PingReq := by
  intro w h0 f hf a ha
  have hm := List.mem_filter.mp hf
  exact (np_of_run cfg ds).1.l h0 f hm.1 (by simpa using hm.2) a ha

/-- The same in the form of the property: on a live connection negotiated with keep-alive 0 the log of the
current transport contains no entry tagged PINGREQ. -/
theorem C10_no_pingreq_logged_when_zero_live (cfg : Cfg) (ds : List Directive) :
    let w := ds.foldl World.execDirective { sess := Session.new cfg }
    w.live = true → w.sess.rt.keepaliveMs = 0 →
    ∀ f ∈ w.curLog, f.tag ≠ .control ControlAction.pingReq := by
  intro w _ h0 f hf ht
  exact C10_no_pingreq_logged_when_zero cfg ds h0 f hf _ ht rfl

/-- **Keep-alive 0: nothing is on its way either.** After any program, whenever the effective keep-alive is
0: there is no PINGREQ timer; no PINGREQ is in the control queue, in whatever send state (so
`perform_outbound_step` will never pick one); `maybe_queue_pingreq` leaves the session as it is at every time;
and the suspended operation, if any, is not in the middle of writing a PINGREQ. -/
theorem C10_no_pingreq_pending_when_zero (cfg : Cfg) (ds : List Directive) (now : Nat) :
    let w := ds.foldl World.execDirective { sess := Session.new cfg }
    w.sess.rt.keepaliveMs = 0 →
    w.sess.rt.nextPing = none ∧
    (∀ e ∈ w.sess.data.outbound.control, e.action.typ ≠ MT_PingReq) ∧
    w.sess.data.outbound.hasPendingPingreq = false ∧
    w.sess.queuePing now = .ok w.sess ∧
    (∀ ctx a bytes written len t, w.fut = some (.stepWrite ctx (.control a) bytes written len t) → a.typ ≠ MT_PingReq) := by
  intro w h0
  have hinv := np_of_run cfg ds
  have hq : ∀ e ∈ w.sess.data.outbound.control, e.action.typ ≠ MT_PingReq :=
    fun e he => hinv.1.q h0 e.action (List.mem_map.mpr ⟨e, he, rfl⟩)
  refine ⟨hinv.1.ka h0, hq, ?_, queuePing_no_keepalive _ now (hinv.1.ka h0), ?_⟩
  · unfold Outbound.hasPendingPingreq
    rw [List.any_eq_false]
    intro e he
    simp [hq e he]
  · intro ctx a bytes written len t hf hping
    exact hinv.2 _ hf a rfl hping h0

/-- **Who sets the effective keep-alive.** Across every session primitive the effective keep-alive stays what
it was, unless the primitive is `activate`, the processing of a CONNACK with a success code (which
`connect_handshake` performs, once, and nothing else does). In particular it does not change during a
connection, and `handle_disconnect` leaves it alone. -/
theorem C10_keepalive_set_by_connack_only {s s' : Session} (h : Prim s s') :
    s'.rt.keepaliveMs = s.rt.keepaliveMs ∨ ∃ sp block now, s' = (s.activate sp block now).1 :=
  h.keepalive

/-- **The handshake starts clean.** While `connect` is suspended (writing or flushing the CONNECT, or waiting
for the CONNACK) — whatever the keep-alive of the connection before —: no PINGREQ timer, no PINGREQ in the
control queue, no PINGREQ in the log of the new transport. So the connection that the CONNACK establishes
begins without one, whatever keep-alive it negotiates. -/
theorem C10_handshake_has_no_pingreq (cfg : Cfg) (ds : List Directive) :
    let w := ds.foldl World.execDirective { sess := Session.new cfg }
    (w.fut = some .connFlush ∨ w.fut = some .connRead ∨ ∃ bs, w.fut = some (.connWrite bs)) →
    w.sess.rt.nextPing = none ∧ (∀ e ∈ w.sess.data.outbound.control, e.action.typ ≠ MT_PingReq) ∧
    ∀ f ∈ w.curLog, ∀ a, f.tag = .control a → a.typ ≠ MT_PingReq := by
  intro w hf
  have hinv := np_of_run cfg ds
  have hs : NpHs w.sess w.nets.length w.log := by
    rcases hf with hf | hf | ⟨bs, hf⟩ <;> exact hinv.2 _ hf
  refine ⟨hs.np, fun e he => hs.q e.action (List.mem_map.mpr ⟨e, he, rfl⟩), ?_⟩
  intro f hfm a ha
  have hm := List.mem_filter.mp hfm
  exact hs.l f hm.1 (by simpa using hm.2) a ha

/-! ### Non-vacuity -/

/-- Configured keep-alive 0, accepted as it is: the first concrete world of `Theorems/C16Quiesce.lean` (QoS 2
and QoS 1 publishes, a PUBREL) — live, keep-alive 0, three entries in the log of the current transport. -/
example :
    C16Q_w.live = true ∧ C16Q_w.sess.rt.keepaliveMs = 0 ∧
    C16Q_w.curLog.map (·.tag) = [.retained 0 1, .release 0 0 1 0, .retained 1 2] := by decide +kernel

/-- …and the theorem applies to it. -/
example : ∀ f ∈ C16Q_w.curLog, f.tag ≠ .control ControlAction.pingReq := by
  have hl : C16Q_w.live = true := by decide +kernel
  have h0 : C16Q_w.sess.rt.keepaliveMs = 0 := by decide +kernel
  unfold C16Q_w at hl h0 ⊢
  exact C10_no_pingreq_logged_when_zero_live C16Q_cfg C16Q_prog hl h0

def C10N_cfg : Cfg :=
  { rx := 64, tx := 128, keepaliveS := 60, expiry := 300, downgrade := false, clientId := [0x63], auth := none, will := none }

/-- Configured keep-alive 60 s; the CONNACK carries Server Keep Alive 0. A QoS 1 publish is sent; the
application waits in `recv()` for 100 s, receives the PUBACK, waits another 100 s. -/
def C10N_prog : List Directive :=
  [.connect, .rx [0x20, 0x06, 0x00, 0x00, 0x03, 0x13, 0x00, 0x00], .go,
   C16Q_pub 1 0x74 0x70, .go, .recv, .tick 100000000, .go, .rx [0x40, 0x02, 0x00, 0x01], .go, .tick 100000000, .go]

/-- Effective keep-alive 0 although 60 s are configured; after 200 s of virtual time the log of the transport
holds the PUBLISH and nothing else. -/
example :
    let w := C10N_prog.foldl World.execDirective { sess := Session.new C10N_cfg }
    w.live = true ∧ w.sess.rt.keepaliveMs = 0 ∧ w.sess.rt.configuredKeepaliveMs = 60000 ∧ w.now = 200000000 ∧
    w.curLog.map (·.tag) = [.retained 0 1] ∧ w.sess.rt.nextPing = none := by decide +kernel

/-- The contrast: the same without the Server Keep Alive property — keep-alive 60 s, and after 100 s in
`recv()` a PINGREQ is in the log. (The hypothesis `keepaliveMs = 0` is not idle.) -/
example :
    let w := [Directive.connect, .rx [0x20, 0x03, 0x00, 0x00, 0x00], .go,
      C16Q_pub 1 0x74 0x70, .go, .recv, .tick 100000000, .go].foldl World.execDirective { sess := Session.new C10N_cfg }
    w.live = true ∧ w.sess.rt.keepaliveMs = 60000 ∧
    w.curLog.map (·.tag) = [.retained 0 1, .control ControlAction.pingReq] := by decide +kernel

/-- The F22 scenario, whole machine. Keep-alive 60 s; after 56 s in `recv()` a PINGREQ is queued and its first
byte (`C0`) is written — the operation is suspended in that write; the connection is dropped; `connect` again,
and the broker answers with session present and Server Keep Alive 0. -/
def C10N_progF22 : List Directive :=
  [.connect, .rx [0x20, 0x03, 0x00, 0x00, 0x00], .go,
   C16Q_pub 1 0x74 0x70, .go, .recv, .tick 56000000, .d 1,
   .drop, .connect, .rx [0x20, 0x06, 0x01, 0x00, 0x03, 0x13, 0x00, 0x00], .go, .recv, .go, .tick 100000000, .go]

/-- Before the drop: a half-written PINGREQ in the control queue, its write suspended. -/
example :
    let w := (C10N_progF22.take 8).foldl World.execDirective { sess := Session.new C10N_cfg }
    w.live = true ∧ w.sess.rt.keepaliveMs = 60000 ∧
    w.sess.data.outbound.control = [{ action := ControlAction.pingReq, state := .write 1 }] ∧
    w.curNet.wire.getLast? = some 0xC0 := by decide +kernel

/-- After the reconnect under keep-alive 0 and another 100 s: the PUBLISH has been replayed on the second
transport, and no PINGREQ has been sent on it; the control queue is empty. -/
example :
    let w := C10N_progF22.foldl World.execDirective { sess := Session.new C10N_cfg }
    w.live = true ∧ w.sess.rt.keepaliveMs = 0 ∧ w.nets.length = 2 ∧
    w.log.map (fun f => (f.net, f.tag)) = [(1, .retained 0 1), (2, .retained 0 1)] ∧
    w.curLog.map (·.tag) = [.retained 0 1] ∧ w.sess.data.outbound.control = [] := by decide +kernel

/-- A handshake in progress (CONNECT written and flushed, waiting for the CONNACK): the hypothesis of
`C10_handshake_has_no_pingreq` holds of a concrete world. -/
example :
    let w := (C10N_progF22.take 10 ++ [Directive.go]).foldl World.execDirective { sess := Session.new C10N_cfg }
    (match w.fut with | some .connRead => true | _ => false) = true ∧ w.live = false ∧
    w.sess.rt.keepaliveMs = 60000 ∧ w.sess.data.outbound.control = [] := by decide +kernel

end Minimq
