import Minimq.Proofs.Quota
/-
C06 — the broker's Receive Maximum is never exceeded.

The client keeps `send_quota` (how many more QoS 1/2 PUBLISH it may start) and `max_send_quota`
(= min(Receive Maximum of the CONNACK, MAX_RETAINED, MAX_PENDING_RELEASE)). The number of exchanges
still unresolved is `inflightPublishes` = retained PUBLISH packets + release (PUBREL) entries; every
publish that has been transmitted and not resolved is one of these.

Known finding F5c (see known_findings.json): a resumed connection whose CONNACK announces a Receive
Maximum below the number of publishes that must be replayed replays all of them and forgets the
deficit (saturating subtraction). The model records this event in the ghost flag `Runtime.deficit`
(set by `activate` exactly when `quota < inflight`, cleared by the next CONNACK that leaves room),
and the window theorem is stated for executions whose last CONNACK did not set it
(`C06_window_partial`). The negation for the other case is witnessed below.
-/
namespace Minimq
open Gen Outbound World

/-- A new session satisfies the invariant. -/
theorem C06_init (cfg : Cfg) : QuotaP (Session.new cfg) :=
  ⟨⟨ArenaInv_new cfg.tx, ⟨by simp [Session.new, Outbound.new], by simp [Session.new, Outbound.new]⟩⟩,
   Or.inr (by simp [Session.new, Outbound.new, inflight_def])⟩

/-- **All programs.** After any sequence of API calls, I/O decisions, inbound packets (acks in any
order, duplicated, stale, with failure codes), ticks, cancellations, drops and reconnects, either the
last CONNACK announced a window below the replay set (F5c) or
`send_quota + (retained PUBLISH + PUBREL entries) ≤ max_send_quota`. -/
theorem C06_all_programs (cfg : Cfg) (ds : List Directive) :
    QuotaP (ds.foldl World.execDirective { sess := Session.new cfg }).sess :=
  run_inv closed_QuotaP ds { sess := Session.new cfg } (C06_init cfg)

/-- **The window** (partial: executions whose last CONNACK left room for the replay set — otherwise
see F5c). The number of unresolved QoS 1/2 exchanges never exceeds `max_send_quota`, and a new
publish is accepted (`send_quota ≠ 0`) only while it is strictly below. -/
theorem C06_window_partial (cfg : Cfg) (ds : List Directive) :
    let s := (ds.foldl World.execDirective { sess := Session.new cfg }).sess
    s.rt.deficit = false →
      s.data.outbound.inflightPublishes ≤ s.rt.maxSendQuota ∧
      (s.rt.sendQuota ≠ 0 → s.data.outbound.inflightPublishes < s.rt.maxSendQuota) := by
  intro s hd
  have h : quotaOk s := (C06_all_programs cfg ds).2
  unfold quotaOk at h
  rcases h with h | h
  · rw [hd] at h; simp at h
  · exact ⟨by omega, fun hq => by omega⟩

/-- `max_send_quota` after a CONNACK is at most the local limit and equal to the send quota the loop
computed: what `activate` stores is `min(Receive Maximum, local limit)` for the last Receive Maximum
property (the local limit when there is none). -/
theorem C06_connack_loop (block : Bytes) (ka : Nat) :
    accInv maxInflight ((iterEncoded block).foldl (Session.connackStep maxInflight)
      (.ok (maxInflight, maxInflight, none, none, ka, none))) :=
  foldl_inv (accInv maxInflight) (Session.connackStep maxInflight) (connackStep_accInv maxInflight) _ _
    ⟨rfl, Nat.le_refl _⟩

/-- One Receive Maximum property caps both quotas at `min v localQ`. -/
theorem C06_receive_maximum_step (localQ sq msq : Nat) (mq mps : Option Nat) (ka : Nat) (cid : Option Bytes) (v : Nat)
    (hv : v ≠ 0) :
    Session.connackStep localQ (.ok (sq, msq, mq, mps, ka, cid)) (some { kind := .ReceiveMaximum, val := .n v }) =
      .ok (min v localQ, min v localQ, mq, mps, ka, cid) := by
  simp [Session.connackStep, hv]

/-- **Beyond the window: refused locally.** With the quota used up a QoS 1/2 publish is refused with
`NotReady`; the only thing that changed in the session is the packet-identifier counter. -/
theorem C06_refused_leaves_nothing (fuel : Nat) (w : World) (r : PubReq)
    (hv : r.props.validFor .Publish = true)
    (hq : effectiveQos w.sess.rt.maxQos w.sess.downgrade r.qos > 0)
    (hfull : w.sess.data.outbound.retainedFull = false) (h0 : w.sess.rt.sendQuota = 0) :
    (afterFlush (fuel + 1) w (.publishPre r)).sess = w.sess.alloc.1 ∧
    (afterFlush (fuel + 1) w (.publishPre r)).lastRes = some (.error .notReady) ∧
    (afterFlush (fuel + 1) w (.publishPre r)).nets = w.nets ∧
    w.sess.alloc.1.data.outbound = w.sess.data.outbound ∧ w.sess.alloc.1.rt = w.sess.rt := by
  have ho : w.sess.alloc.1.data.outbound = w.sess.data.outbound := by
    rw [Session.alloc_fst]; exact nextPacketId_outbound _
  have hr : w.sess.alloc.1.rt = w.sess.rt := by rw [Session.alloc_fst]
  unfold afterFlush
  simp only [hv, Bool.not_true, Bool.false_eq_true, if_false, hq, if_true]
  have hcan : canPublishS w.sess.alloc.1.data w.sess.alloc.1.rt (effectiveQos w.sess.rt.maxQos w.sess.downgrade r.qos) = false := by
    unfold canPublishS
    rw [if_neg (by omega), hr, h0]; simp
  rw [ho, hfull]
  simp only [Bool.false_eq_true, if_false, hcan, Bool.and_false, Bool.not_false, if_true]
  exact ⟨rfl, rfl, rfl, trivial, hr⟩

/-- **No QoS 2 exchange is dropped for lack of a PUBREL slot** (partial: needs the window invariant
without deficit and `max_send_quota ≤ local limit`, which holds after every CONNACK —
`C06_connack_loop`). When a successful PUBREC finds its PUBLISH, the release list has room. -/
theorem C06_pubrec_has_room_partial (o : Outbound) (r : Runtime) (id : Nat) (ha : o.ArenaInv)
    (hq : r.sendQuota + o.inflightPublishes ≤ r.maxSendQuota) (hm : r.maxSendQuota ≤ maxInflight)
    (hf : (o.ackPacket id .pubRec).2 = true) :
    ∃ o', (o.ackPacket id .pubRec).1.queueRelease id RC_Success = some o' := by
  obtain ⟨hinf, hrel⟩ := ackPacket_inflight o id .pubRec ha hf
  simp at hinf
  have hlen : (o.ackPacket id .pubRec).1.release.length < MAX_PENDING_RELEASE := by
    have h1 : (o.ackPacket id .pubRec).1.release.length ≤ (o.ackPacket id .pubRec).1.inflightPublishes := by
      rw [inflight_def]; omega
    have : maxInflight ≤ MAX_PENDING_RELEASE := by decide
    omega
  unfold queueRelease
  rw [if_neg (by omega)]
  exact ⟨_, rfl⟩

/-- Witness for F5c in the model: three publishes to replay, CONNACK with Receive Maximum 2 — the
quota saturates at 0 and the deficit flag is raised; the window (2) is smaller than what is in flight (3). -/
example :
    let o : Outbound := { (Outbound.new 32) with
      buf := [0x32, 0, 0, 0x32, 0, 0, 0x32, 0, 0] ++ List.replicate 23 0, used := 9, nextSer := 3,
      retained := [{ id := 1, offset := 0, len := 3, state := .write 0, ser := 0 },
                   { id := 2, offset := 3, len := 3, state := .write 0, ser := 1 },
                   { id := 3, offset := 6, len := 3, state := .write 0, ser := 2 }] }
    let s : Session := { (Session.new { rx := 64, tx := 32, keepaliveS := 0, expiry := 0, downgrade := false,
                                          clientId := [], auth := none, will := none }) with
      data := { outbound := o, sessionPresent := true } }
    let s' := (s.activate true [0x21, 0, 2] 0).1
    s'.rt.deficit = true ∧ s'.rt.sendQuota = 0 ∧ s'.rt.maxSendQuota = 2 ∧ s'.data.outbound.inflightPublishes = 3 := by
  decide

end Minimq
