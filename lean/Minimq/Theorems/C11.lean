import Minimq.Proofs.Ops
/-
C11 — a dead connection handle stays dead and never touches the transport again.

(1) `C11_dead_stays_dead`: `dead` is absorbing under every API call, the transports are untouched
    (`nets` is where every accepted byte and every consumed byte is recorded) and the session too.
(2) the `…_latches` theorems: each fatal outcome — a transport error at any write, flush or read,
    end of stream, a broker DISCONNECT, an undecodable packet, an expired ping timeout, and a
    completed `disconnect()` — leaves `live = false`. They are stated on the functions that
    perform the corresponding await, for every state and every calling context.
-/
namespace Minimq
open Gen World

/-- No API call on a dead handle touches a transport, revives the handle or changes the session
(the results — `Disconnected`, `Ok` for `disconnect` — are `C11_dead_results`; any number of calls:
`C11_dead_forever`). -/
theorem C11_dead_stays_dead (w : World) (d : Directive) (h : w.dead)
    (hd : match d with
      | .publish _ | .subscribe _ | .unsubscribe _ | .disconnect _ | .poll | .recv | .drive
      | .d _ | .go | .tick _ | .cancel => True
      | _ => False) :
    (w.execDirective d).dead ∧ (w.execDirective d).nets = w.nets ∧ (w.execDirective d).sess = w.sess := by
  have hl := dead_live_false h
  have hdead := h
  obtain ⟨⟨c, hc, hcl⟩, hf⟩ := h
  have hnone : w.conn.isNone = false := by simp [hc]
  have hlive : ∀ (w' : World), w'.conn = w.conn → w'.live = false := by
    intro w' h1; simp [World.live, h1, hc, hcl]
  have hdead' : ∀ (w' : World), w'.conn = w.conn → w'.fut = none → w'.dead := by
    intro w' h1 h2; exact ⟨⟨c, by rw [h1, hc], hcl⟩, h2⟩
  cases d <;> simp only [] at hd
  all_goals
    simp only [World.execDirective, World.startOp, hnone, World.cancelFut, hf, Option.isSome_none, Option.isNone_none,
      Bool.false_eq_true, if_false, if_true]
  case publish r =>
    rw [if_pos (by simp [World.live, hc, hcl])]
    exact ⟨hdead' _ rfl rfl, rfl, rfl⟩
  case subscribe r =>
    rw [if_pos (by simp [World.live, hc, hcl])]
    exact ⟨hdead' _ rfl rfl, rfl, rfl⟩
  case unsubscribe r =>
    rw [if_pos (by simp [World.live, hc, hcl])]
    exact ⟨hdead' _ rfl rfl, rfl, rfl⟩
  case disconnect r =>
    rw [if_pos (by simp [World.live, hc, hcl])]
    exact ⟨hdead' _ rfl rfl, rfl, rfl⟩
  case poll =>
    rw [driveEnter_dead _ _ (by simp [World.live, hc, hcl])]
    exact ⟨hdead' _ rfl rfl, rfl, rfl⟩
  case recv =>
    rw [driveEnter_dead _ _ (by simp [World.live, hc, hcl])]
    exact ⟨hdead' _ rfl rfl, rfl, rfl⟩
  case drive =>
    rw [driveEnter_dead _ _ (by simp [World.live, hc, hcl])]
    exact ⟨hdead' _ rfl rfl, rfl, rfl⟩
  case d n => simp only [World.emit]; exact ⟨hdead' _ rfl hf, trivial, trivial⟩
  case go => simp only [World.emit]; exact ⟨hdead' _ rfl hf, trivial, trivial⟩
  case tick us =>
    split
    · simp only [World.emit]; exact ⟨hdead' _ rfl hf, trivial, trivial⟩
    · exact ⟨hdead' _ rfl rfl, rfl, rfl⟩
  case cancel => exact ⟨hdead, trivial, trivial⟩

/-- **The documented results on a dead handle**: every network operation reports `Disconnected`,
`disconnect()` reports `Ok`, and both `is_connected()` and `can_publish(qos)` are false. -/
theorem C11_dead_results (w : World) (h : w.dead) :
    (∀ r, (w.execDirective (.publish r)).lastRes = some (.error .disconnected)) ∧
    (∀ r, (w.execDirective (.subscribe r)).lastRes = some (.error .disconnected)) ∧
    (∀ r, (w.execDirective (.unsubscribe r)).lastRes = some (.error .disconnected)) ∧
    (w.execDirective .poll).lastRes = some (.error .disconnected) ∧
    (w.execDirective .recv).lastRes = some (.error .disconnected) ∧
    (w.execDirective .drive).lastRes = some (.error .disconnected) ∧
    (∀ d, (w.execDirective (.disconnect d)).lastRes = some (.ok ())) ∧
    w.live = false ∧ (∀ q, (w.live && canPublishS w.sess.data w.sess.rt q) = false) := by
  have hl := dead_live_false h
  obtain ⟨⟨c, hc, hcl⟩, hf⟩ := h
  refine ⟨?_, ?_, ?_, ?_, ?_, ?_, ?_, hl, fun q => by rw [hl]; rfl⟩
  · intro r; simp [World.execDirective, World.startOp, hc, World.cancelFut, hf, World.live, hcl, World.finishErr, World.finish]
  · intro r; simp [World.execDirective, World.startOp, hc, World.cancelFut, hf, World.live, hcl, World.finishErr, World.finish]
  · intro r; simp [World.execDirective, World.startOp, hc, World.cancelFut, hf, World.live, hcl, World.finishErr, World.finish]
  · simp [World.execDirective, World.startOp, hc, World.cancelFut, hf, driveEnter_dead, World.live, hcl, World.finishErr, World.finish]
  · simp [World.execDirective, World.startOp, hc, World.cancelFut, hf, driveEnter_dead, World.live, hcl, World.finishErr, World.finish]
  · simp [World.execDirective, World.startOp, hc, World.cancelFut, hf, driveEnter_dead, World.live, hcl, World.finishErr, World.finish]
  · intro d; simp [World.execDirective, World.startOp, hc, World.cancelFut, hf, World.live, hcl, World.finish]

/-- **For good**: any sequence of API calls on a dead handle leaves it dead, the transports and the
session untouched. -/
theorem C11_dead_forever (w : World) (h : w.dead) (ops : List Directive)
    (hops : ∀ d ∈ ops, match d with
      | .publish _ | .subscribe _ | .unsubscribe _ | .disconnect _ | .poll | .recv | .drive
      | .d _ | .go | .tick _ | .cancel => True
      | _ => False) :
    (ops.foldl World.execDirective w).dead ∧ (ops.foldl World.execDirective w).nets = w.nets ∧
    (ops.foldl World.execDirective w).sess = w.sess := by
  induction ops generalizing w with
  | nil => exact ⟨h, rfl, rfl⟩
  | cons d ds ih =>
    have h1 := C11_dead_stays_dead w d h (hops d (by simp))
    obtain ⟨a, b, c⟩ := ih (w.execDirective d) h1.1 (fun x hx => hops x (by simp [hx]))
    exact ⟨a, b.trans h1.2.1, c.trans h1.2.2⟩

/-- A transport error on the write of a queued packet (retained packet, PUBREL, acknowledgement,
PINGREQ) kills the handle, whoever was writing. -/
theorem C11_stepWrite_fault_latches (fuel : Nat) (w : World) (ctx : StepCtx) (pkt : Flushed) (bytes : Bytes)
    (written len now k : Nat) (hs : w.slot = some k) (hk : 252 ≤ k) :
    (doStepWrite (fuel + 1) w ctx pkt bytes written len now).live = false ∧
    (doStepWrite (fuel + 1) w ctx pkt bytes written len now).lastRes = some (.error (.transport k)) := by
  obtain ⟨w', h1, _, _⟩ := ioWrite_fault w (bytes.drop written) k hs hk
  simp [doStepWrite, h1]

theorem C11_stepFlush_fault_latches (fuel : Nat) (w : World) (ctx : StepCtx) (pkt : Flushed) (now k : Nat)
    (hs : w.slot = some k) (hk : 252 ≤ k) :
    (doStepFlush (fuel + 1) w ctx pkt now).live = false ∧
    (doStepFlush (fuel + 1) w ctx pkt now).lastRes = some (.error (.transport k)) := by
  obtain ⟨w', h1, _, _⟩ := ioFlush_fault w k hs hk
  simp [doStepFlush, h1]

/-- **`disconnect()` ends the connection also when its preliminary flush fails without a transport
error** (F25, fixed in the crate: `disconnect_with` calls `handle_disconnect()` before it returns the
error of `flush_outbound`). A write that accepts nothing (`Ok(0)`, decision 251) of a queued packet
inside `disconnect`: the call reports `WriteZero` and the handle is dead… -/
theorem C11_disconnect_flush_writeZero_latches (fuel : Nat) (w : World) (d : Disconnect) (pkt : Flushed)
    (bytes : Bytes) (written len now : Nat) (hs : w.slot = some 251) :
    (doStepWrite (fuel + 1) w (.flush (.discPre d)) pkt bytes written len now).live = false ∧
    (doStepWrite (fuel + 1) w (.flush (.discPre d)) pkt bytes written len now).lastRes = some (.error .writeZero) := by
  have h1 : ∃ w', w.ioWrite (bytes.drop written) = (w', .zero) := by
    unfold World.ioWrite; rw [hs]; exact ⟨_, rfl⟩
  obtain ⟨w', h1⟩ := h1
  simp [doStepWrite, h1]

/-- …whereas the same `Ok(0)` met by `poll`/`recv`/`drive` or by the flush of a publish, subscribe or
unsubscribe is reported and leaves the handle as it was (`WriteZero` is not a transport error; the
packet is not torn, the next call offers the rest of it). -/
theorem C11_writeZero_elsewhere_keeps_handle (fuel : Nat) (w : World) (ctx : StepCtx) (pkt : Flushed)
    (bytes : Bytes) (written len now : Nat) (hs : w.slot = some 251) (hctx : ∀ d, ctx ≠ .flush (.discPre d)) :
    (doStepWrite (fuel + 1) w ctx pkt bytes written len now).live = w.live ∧
    (doStepWrite (fuel + 1) w ctx pkt bytes written len now).lastRes = some (.error .writeZero) := by
  have h1 : w.ioWrite (bytes.drop written) =
      (({ w with slot := none, lastIoStarved := false } : World).emit s!"wz {w.netIdx}", .zero) := by
    unfold World.ioWrite; rw [hs]; rfl
  rcases discFail_cases (({ w with slot := none, lastIoStarved := false } : World).emit s!"wz {w.netIdx}") ctx with ⟨e, _⟩ | ⟨_, d, hd⟩
  · simp only [doStepWrite, h1, e]; exact ⟨rfl, rfl⟩
  · exact (hctx d hd).elim

/-- Every other way the preliminary flush of `disconnect` can fail — a queued packet that cannot be
encoded or exceeds the broker's packet size limit (`prepareStep` fails), a PINGREQ that cannot be
queued — ends the connection too. -/
theorem C11_disconnect_flush_fail_latches (fuel : Nat) (w : World) (d : Disconnect) (step : Outbound.Step)
    (now : Nat) (e : Err) (hp : prepareStep w step = .fail e) :
    (performStep (fuel + 1) w (.flush (.discPre d)) step now).live = false ∧
    (performStep (fuel + 1) w (.flush (.discPre d)) step now).lastRes = some (.error e) := by
  cases step <;> simp [performStep, hp]

/-- **A queued acknowledgement or PUBREL that this connection cannot carry closes it**, whoever is
flushing (F14b, repaired in the crate: `perform_outbound_step` calls `handle_disconnect()` before it
returns the error): the packet was queued under an earlier, larger Maximum Packet Size, the size check
at send time fails, the call reports the error and the handle is dead. (A retained packet in the same
situation is finding F14: the call fails and the handle stays as it was.) -/
theorem C11_unsendable_ack_closes (fuel : Nat) (w : World) (ctx : StepCtx) (step : Outbound.Step)
    (now : Nat) (e : Err) (hp : prepareStep w step = .fail e)
    (hstep : (∃ a st, step = .control a st) ∨ (∃ id rc st, step = .release id rc st)) :
    (performStep (fuel + 1) w ctx step now).live = false ∧
    (performStep (fuel + 1) w ctx step now).lastRes = some (.error e) := by
  rcases hstep with ⟨a, st, rfl⟩ | ⟨id, rc, st, rfl⟩ <;> simp [performStep, hp]

theorem C11_disconnect_pingreq_fail_latches (fuel : Nat) (w : World) (d : Disconnect) (e : Err)
    (hq : w.maybeQueuePingreq w.now = .error e) :
    (flushLoop (fuel + 1) w (.discPre d)).live = false ∧
    (flushLoop (fuel + 1) w (.discPre d)).lastRes = some (.error e) := by
  simp [flushLoop, hq]

/-- QoS 0 PUBLISH (`which = 1`) and DISCONNECT (`which = 2`) written from their local buffer:
a transport error on write or flush kills the handle. -/
theorem C11_localWrite_fault_latches (fuel : Nat) (w : World) (which : Nat) (bytes : Bytes) (k : Nat)
    (hw : which = 1 ∨ which = 2) (hb : bytes ≠ []) (hs : w.slot = some k) (hk : 252 ≤ k) :
    (doLocalWrite (fuel + 1) w which bytes).live = false := by
  obtain ⟨w', h1, _, _⟩ := ioWrite_fault w bytes k hs hk
  have hbe : bytes.isEmpty = false := by cases bytes <;> simp_all
  rcases hw with h | h <;> subst h <;> simp [doLocalWrite, h1, hbe]

theorem C11_localFlush_fault_latches (fuel : Nat) (w : World) (which : Nat) (k : Nat)
    (hw : which = 1 ∨ which = 2) (hs : w.slot = some k) (hk : 252 ≤ k) :
    (doLocalFlush (fuel + 1) w which).live = false := by
  obtain ⟨w', h1, _, _⟩ := ioFlush_fault w k hs hk
  rcases hw with h | h <;> subst h <;> simp [doLocalFlush, h1]

/-- `disconnect()` leaves a dead handle also when the DISCONNECT went out fine. -/
theorem C11_disconnect_done_is_dead (fuel : Nat) (w : World) (k : Nat) (hs : w.slot = some k) (hk : 1 ≤ k ∧ k ≤ 251) :
    (doLocalFlush (fuel + 1) w 2).live = false := by
  have h1 : ∃ w', w.ioFlush = (w', .ok) := by
    unfold World.ioFlush
    rw [hs]
    simp only []
    rw [if_pos (by omega)]
    exact ⟨_, rfl⟩
  obtain ⟨w', h1⟩ := h1
  simp [doLocalFlush, h1]

/-- An expired ping timeout is checked before anything else in `service` and kills the handle. -/
theorem C11_ping_timeout_latches (fuel : Nat) (w : World) (o : Outer) (adv : Bool) (d : Nat)
    (hnp : w.sess.reader.packetAvailable = false) (hpt : w.sess.rt.pingTimeout = some d) (hd : d ≤ w.now) :
    (driveLoop (fuel + 1) w o adv).live = false ∧
    (driveLoop (fuel + 1) w o adv).lastRes = some (.error .disconnected) ∧
    (driveLoop (fuel + 1) w o adv).nets = w.nets := by
  simp [driveLoop, hnp, hpt, hd]
  unfold World.handleDisconnect; rfl

/-- End of stream or a transport error while waiting for input kills the handle. -/
theorem C11_waitRead_fault_latches (fuel : Nat) (w : World) (o : Outer) (deadline : Option Nat) (y : Bool) (k : Nat)
    (s1 : Session) (window : Nat)
    (hnp : w.sess.reader.packetAvailable = false) (hwin : w.sess.window = some (s1, window))
    (hw0 : window ≠ 0) (hs : w.slot = some k) (hk : 251 ≤ k) :
    (doWaitRead (fuel + 1) w o deadline y).live = false := by
  have hio : ∃ w', (World.ioRead { w with sess := s1 } window = (w', .eof) ∨
      World.ioRead { w with sess := s1 } window = (w', .err k)) := by
    unfold World.ioRead
    simp only [hs]
    rw [if_neg (by omega)]
    by_cases h251 : k = 251
    · rw [if_pos h251]; exact ⟨_, Or.inl rfl⟩
    · rw [if_neg h251]; exact ⟨_, Or.inr rfl⟩
  obtain ⟨w', h1 | h1⟩ := hio <;> simp [doWaitRead, hnp, hwin, hw0, h1]

/-- An undecodable inbound packet kills the handle (and nothing of it is acted upon: the session data
and runtime are untouched apart from the transport reset every disconnect performs). -/
theorem C11_invalid_packet_latches (w : World) (s1 : Session)
    (hav : w.sess.reader.packetAvailable = true) (htp : w.sess.takePkt = (s1, none)) :
    (w.processReceivedPacket).1.live = false ∧ (w.processReceivedPacket).2 = .error .peerInvalid ∧
    (w.processReceivedPacket).1.nets = w.nets ∧
    (w.processReceivedPacket).1.sess = s1.handleDisconnect := by
  simp [World.processReceivedPacket, hav, htp]
  refine ⟨?_, ?_⟩ <;> (unfold World.handleDisconnect; rfl)

/-- A broker DISCONNECT kills the handle. -/
theorem C11_broker_disconnect_latches (w : World) (s1 : Session) (len : Nat) (rc : Option Nat) (props : Option Bytes)
    (hav : w.sess.reader.packetAvailable = true)
    (htp : w.sess.takePkt = (s1, some (len, .disconnect rc props))) :
    (w.processReceivedPacket).1.live = false ∧ (w.processReceivedPacket).2 = .error .disconnected := by
  simp [World.processReceivedPacket, hav, htp, Session.handle, handlePacket]

/-- Non-vacuity: a world with a dead handle and a QoS 1 publish still retained. -/
example : ∃ w : World, w.dead ∧ w.sess.data.outbound.retained ≠ [] :=
  ⟨{ sess := { (Session.new { rx := 64, tx := 64, keepaliveS := 60, expiry := 0, downgrade := false,
                              clientId := [], auth := none, will := none }) with
                data := { outbound := { (Outbound.new 64) with
                  retained := [{ id := 1, offset := 3, len := 9, state := .write 0 }], used := 12 } } },
     conn := some { live := false, resumed := false } },
   ⟨⟨_, rfl, rfl⟩, rfl⟩, by simp⟩

end Minimq
