import Minimq.Proofs.CancelLink
import Minimq.Theorems.C13
/-
C13, whole machine — dropping the future of a cancel-safe operation and driving on is the same as
resuming it.

Two runs start from one suspended world `w`. Run A resumes the future: each `Directive.d n` is one POLL
with I/O decision `n`. Run B drops the future and starts a fresh operation — `poll` if the dropped one
was a publish (QoS 1/2), subscribe or unsubscribe, and an operation of the same kind if it was a
`poll`, `recv` or `drive` (`dirOf`) — and is then driven with the same decisions. The fresh operation's
first POLL has no I/O decision, so it stops at its first I/O call: that is the re-entry.

What is compared. `w.rest` is the world without the trace (`out`), the suspended future (`fut`) and the
two per-POLL flags (`wakes`, `lastIoStarved`, reset by every POLL): session, connection handle,
transports (wire AND bytes still to be delivered), virtual time, I/O decision, handles, last result,
torn marks and transmission log. `w.fin` forgets `handles` and `lastRes` as well. The two runs agree on
`rest` while both are suspended and on `fin` once they have completed: the completion events differ by
design (run A reports `ret publish ok op …`, registers the handle and sets `lastRes` for the publish; run
B reports `ret poll ok none`) — `handles`, `lastRes` and the trace are exactly the fields that may differ.
`DISCONNECT` (finding F2b), CONNECT and QoS 0 publishes are not covered: their await points keep bytes
in the future (`tearsPacket`).

Hypotheses about time, stated where they are used:
 * `KaCalm rt now` — no keep-alive event is due: the next PINGREQ and the ping timeout, if armed, lie
   after `now`. It is preserved by everything the compared runs do at a fixed time (`complete_flush`
   re-arms the timers after `now`). Without it the statement is false: `C13_corner_pingreq_reorders`.
 * the `now` stored in the suspended future is the world's `now` (no `tick` since the step was prepared).

Results:
 1. Re-entry, for worlds the machine produced (`C13_reentry_write`, `C13_reentry_flush`,
    `C13_reentry_read`): run B's first I/O call is run A's — same queue entry (control, release or
    retained), same bytes, same offset / same flush / same read with the same deadline — and run B
    suspends there in the same state.
 2. Simulation (`C13_step_flush_vs_poll`, `C13_run_flush_vs_poll`, `C13_step_same_kind`,
    `C13_run_same_kind`): one POLL with the same decision keeps the two runs at corresponding await
    points in the same state, or completes both in the same state, or — run A being inside
    `flush_outbound` — completes run B's `poll` with `Ok` at the moment run A's queues are drained and
    run A goes on to its continuation `k` from that very state: for `k = .post name op` (request already
    enqueued) that continuation just reports the handle (`C13_post_completes_with_poll`); for a `…Pre`
    continuation it is the first moment the request touches the session. "Completes both in the same
    state" has one exception, stated in `DoneF` and `C13_disconnect_flush_vs_poll`: `disconnect` ends the
    connection when its preliminary flush fails for any reason, `poll` only for a transport error, so
    after a `WriteZero` run A's handle is dead and run B's state is run A's before `handle_disconnect`.
 3. Not yet enqueued (`C13_unenqueued_request_leaves_no_trace`, `C13_start_subscribe_vs_poll`): an
    operation inside its preliminary flush has done to session, transports and log exactly what a `poll`
    would have done; cancelling it changes none of them.
 4. Examples, and the PINGREQ corner.
-/
namespace Minimq
open Gen World Outbound Fuel

/-- What `rest` and `fin` keep. -/
theorem C13_rest_fields {a b : World} (h : a.rest = b.rest) :
    a.sess = b.sess ∧ a.conn = b.conn ∧ a.nets = b.nets ∧ a.now = b.now ∧ a.slot = b.slot ∧
    a.handles = b.handles ∧ a.lastRes = b.lastRes ∧ a.tornNets = b.tornNets ∧ a.log = b.log := by
  have f : ∀ {β : Type} (g : World → β), g a.rest = g b.rest := fun g => congrArg g h
  exact ⟨f World.sess, f World.conn, f World.nets, f World.now, f World.slot, f World.handles, f World.lastRes,
    f World.tornNets, f World.log⟩

theorem C13_fin_fields {a b : World} (h : a.fin = b.fin) :
    a.sess = b.sess ∧ a.conn = b.conn ∧ a.nets = b.nets ∧ a.now = b.now ∧ a.slot = b.slot ∧
    a.tornNets = b.tornNets ∧ a.log = b.log := by
  have f : ∀ {β : Type} (g : World → β), g a.fin = g b.fin := fun g => congrArg g h
  exact ⟨f World.sess, f World.conn, f World.nets, f World.now, f World.slot, f World.tornNets, f World.log⟩

/-- `KaCalm`, spelled out. -/
theorem C13_kaCalm_iff (rt : Runtime) (now : Nat) :
    KaCalm rt now ↔ (∀ np, rt.nextPing = some np → now < np) ∧ (∀ pt, rt.pingTimeout = some pt → now < pt) := Iff.rfl

/-! ### 1. Re-entry -/

/-- **Re-entry at the `write` await.** Run any program; let `w` be the world it ends in, live, its
transport not marked torn, suspended at the `write` await of `perform_outbound_step` for queue entry
`pkt` (an acknowledgement / PINGREQ, a PUBREL or a retained packet) with `wr` of the packet's `bytes`
accepted so far, in whatever context (`poll`/`recv`/`drive`, or either flush of publish / subscribe /
unsubscribe). Assume no `tick` since the step was prepared and no keep-alive event due. Drop the future
and start `poll`, `recv` or `drive` (`dirOf o`): the new operation suspends at the same `write` — same
entry, same bytes, same offset, so its first I/O call offers `bytes.drop wr` exactly as the resumed
future would (`C13_resume_is_the_same_write`) — in the same state; the trace gains `cancel` and the
pending write. -/
theorem C13_reentry_write (cfg : Cfg) (ds : List Directive) (ctx : StepCtx) (pkt : Flushed) (bytes : Bytes)
    (wr len : Nat) (o : Outer) :
    let w := ds.foldl World.execDirective { sess := Session.new cfg }
    w.nets.length ∉ w.tornNets → w.fut = some (.stepWrite ctx pkt bytes wr len w.now) →
    KaCalm w.sess.rt w.now →
    let b := w.execDirective (dirOf o)
    b.rest = w.rest ∧ b.fut = some (.stepWrite (.drive false o) pkt bytes wr len w.now) ∧
    b.out = s!"wp {w.netIdx}" :: "cancel" :: w.out := by
  intro w hnt hf hcalm
  have hinv := run_WInv ds { sess := Session.new cfg } (WInv_init cfg)
  have hs : w.slot = none := slot_run ds _ rfl
  rcases hinv.cur with ht | hp
  · exact (hnt ht).elim
  · rw [hf] at hp
    have hp' : PcOK w.view (.stepWrite ctx pkt bytes wr len w.now) := hp
    obtain ⟨ha, hl, st, hn, hprep⟩ := write_ready hp'
    exact reenter_write w ctx pkt bytes wr len hf hl hs ⟨ha, hcalm⟩ st hn hprep o

/-- **Re-entry at the `flush` await** (the packet is completely written, its flush is pending). -/
theorem C13_reentry_flush (cfg : Cfg) (ds : List Directive) (ctx : StepCtx) (pkt : Flushed) (o : Outer) :
    let w := ds.foldl World.execDirective { sess := Session.new cfg }
    w.nets.length ∉ w.tornNets → w.fut = some (.stepFlush ctx pkt w.now) → KaCalm w.sess.rt w.now →
    let b := w.execDirective (dirOf o)
    b.rest = w.rest ∧ b.fut = some (.stepFlush (.drive false o) pkt w.now) ∧
    b.out = s!"fp {w.netIdx}" :: "cancel" :: w.out := by
  intro w hnt hf hcalm
  have hinv := run_WInv ds { sess := Session.new cfg } (WInv_init cfg)
  have hs : w.slot = none := slot_run ds _ rfl
  rcases hinv.cur with ht | hp
  · exact (hnt ht).elim
  · rw [hf] at hp
    have hp' : PcOK w.view (.stepFlush ctx pkt w.now) := hp
    obtain ⟨ha, hl, st, hn, hprep⟩ := flush_ready hp'
    exact reenter_flush w ctx pkt hf hl hs ⟨ha, hcalm⟩ st hn hprep o

/-- **Re-entry at the `read` await** of `poll` / `recv` (`drive` never waits): the new operation of
the same kind finds nothing to send (the machine reads only then), and suspends at the same `read`, with
the same deadline; the stored deadline is the session's, and the timer had been registered. -/
theorem C13_reentry_read (cfg : Cfg) (ds : List Directive) (o : Outer) (d : Option Nat) (y : Bool) :
    let w := ds.foldl World.execDirective { sess := Session.new cfg }
    w.nets.length ∉ w.tornNets → w.fut = some (.waitRead o d y) → o ≠ .drive → KaCalm w.sess.rt w.now →
    let b := w.execDirective (dirOf o)
    b.rest = w.rest ∧ b.fut = some (.waitRead o d y) ∧ b.out = s!"rp {w.netIdx}" :: "cancel" :: w.out := by
  intro w hnt hf ho hcalm
  have hinv := run_WInv ds { sess := Session.new cfg } (WInv_init cfg)
  have hs : w.slot = none := slot_run ds _ rfl
  rcases hinv.cur with ht | hp
  · exact (hnt ht).elim
  · rw [hf] at hp
    have hp' : PcOK w.view (.waitRead o d y) := hp
    obtain ⟨ha, hl, hn, hy, hd, n, hn0, hw⟩ := read_ready hp'
    have := reenter_read w o ho d y hf hl hs ⟨ha, hcalm⟩ hn n hw hn0
    rw [← hd, ← hy] at this
    exact this

/-- After the re-entry the two worlds are related: run A inside `flush_outbound` (either flush of a
publish QoS 1/2, subscribe, unsubscribe; `k` says which) against run B's `poll`… -/
theorem C13_reentry_gives_RF (w b : World) (k : AfterFlush) (pa pb : Pc) (hr : b.rest = w.rest)
    (ha : w.sess.reader.packetAvailable = false) (hc : KaCalm w.sess.rt w.now) (hfa : w.fut = some pa) (hfb : b.fut = some pb)
    (hp : PcF k w.now pa pb) : RF k w b :=
  ⟨hr.symm, ⟨ha, hc⟩, pa, pb, hfa, hfb, hp⟩

/-- …and a `poll` / `recv` / `drive` against a fresh one of the same kind. -/
theorem C13_reentry_gives_RD (w b : World) (pa pb : Pc) (hr : b.rest = w.rest) (hfa : w.fut = some pa)
    (hfb : b.fut = some pb) (hp : PcD pa pb) : RD w b :=
  ⟨hr.symm, pa, pb, hfa, hfb, hp⟩

/-! ### 2. Simulation -/

/-- `RF`, spelled out: same state, no complete inbound packet waiting and no keep-alive event due, and
the two futures are suspended at the same I/O call for the same entry with the same progress — run A
inside `flush_outbound` with continuation `k`, run B inside `poll`. -/
theorem C13_RF_iff (k : AfterFlush) (a b : World) :
    RF k a b ↔ a.rest = b.rest ∧ (a.sess.reader.packetAvailable = false ∧ KaCalm a.sess.rt a.now) ∧
      ((∃ adv pkt bytes wr len, a.fut = some (.stepWrite (.flush k) pkt bytes wr len a.now) ∧
          b.fut = some (.stepWrite (.drive adv .poll) pkt bytes wr len a.now)) ∨
       (∃ adv pkt, a.fut = some (.stepFlush (.flush k) pkt a.now) ∧
          b.fut = some (.stepFlush (.drive adv .poll) pkt a.now))) := by
  constructor
  · rintro ⟨h1, ⟨h2, h3⟩, pa, pb, hfa, hfb, hp⟩
    refine ⟨h1, ⟨h2, h3⟩, ?_⟩
    cases hp with
    | write adv pkt bytes wr len => exact Or.inl ⟨adv, pkt, bytes, wr, len, hfa, hfb⟩
    | flush adv pkt => exact Or.inr ⟨adv, pkt, hfa, hfb⟩
  · rintro ⟨h1, ⟨h2, h3⟩, h4⟩
    rcases h4 with ⟨adv, pkt, bytes, wr, len, hfa, hfb⟩ | ⟨adv, pkt, hfa, hfb⟩
    · exact ⟨h1, ⟨h2, h3⟩, _, _, hfa, hfb, .write adv pkt bytes wr len⟩
    · exact ⟨h1, ⟨h2, h3⟩, _, _, hfa, hfb, .flush adv pkt⟩

/-- **One POLL, same I/O decision: an operation inside `flush_outbound` against a `poll`.** From related
worlds, after `Directive.d n` on both sides: the worlds are related again; or both operations completed —
with the same error — in the same state (`fin`); or run B's `poll` completed with `Ok` and run A is
`afterFlush k` applied to a world `u0` that agrees with run B's (`u0.fin = b'.fin`): the queues are
drained, and only now does run A's continuation run. -/
theorem C13_step_flush_vs_poll {k : AfterFlush} {a b : World} (h : RF k a b) (n : Nat) :
    StepF k (a.execDirective (.d n)) (b.execDirective (.d n)) := h.step n

/-- **The request is already enqueued** (`k = .post name op`: the second flush of a publish QoS 1/2,
subscribe or unsubscribe). One POLL with the same decision: the worlds are related again, or both
operations have completed in the same session, transports (wire and undelivered bytes), log, connection
and time. -/
theorem C13_post_completes_with_poll {name : String} {op : Op} {a b : World} (h : RF (.post name op) a b) (n : Nat) :
    let a' := a.execDirective (.d n)
    let b' := b.execDirective (.d n)
    RF (.post name op) a' b' ∨ (a'.fut = none ∧ b'.fut = none ∧ a'.fin = b'.fin) := by
  intro a' b'
  cases h.step n with
  | susp h1 => exact Or.inl h1
  | done h1 h2 h3 => exact Or.inr ⟨h1, h2, h3.same (fun d hd => by cases hd)⟩
  | handed u0 oa h1 h2 h3 h4 h5 =>
    right
    have e : a' = wrap (u0.finishOp name op) oa := by rw [← ev_AF_post]; exact h1
    refine ⟨by rw [e]; rfl, h3, ?_⟩
    rw [e, wrap_fin, fin_finishOp, ← h5]
    unfold World.fin World.rest; simp only []; rw [h2]

/-- **Any number of POLLs.** With the same list of I/O decisions: the two runs are related at the end,
or there is a first POLL after which they are not, and that POLL ended as described in
`C13_step_flush_vs_poll`. -/
theorem C13_run_flush_vs_poll {k : AfterFlush} {a b : World} (h : RF k a b) (ks : List Nat) :
    RF k (runD ks a) (runD ks b) ∨
    ∃ ks1 n ks2, ks = ks1 ++ n :: ks2 ∧ RF k (runD ks1 a) (runD ks1 b) ∧
      StepF k (runD (ks1 ++ [n]) a) (runD (ks1 ++ [n]) b) ∧ ¬ RF k (runD (ks1 ++ [n]) a) (runD (ks1 ++ [n]) b) :=
  h.run ks

/-- **One POLL, same I/O decision: `poll` / `recv` / `drive` against a fresh one of the same kind.** Both
runs add the same lines to their traces (so the same `msg` lines: the same messages are delivered), end
in the same state, and are suspended at the same await point or have both completed. -/
theorem C13_step_same_kind {a b : World} (h : RD a b) (n : Nat) :
    let a' := a.execDirective (.d n)
    let b' := b.execDirective (.d n)
    (∃ new, a'.out = new ++ a.out ∧ b'.out = new ++ b.out) ∧ a'.rest = b'.rest ∧
    (RD a' b' ∨ (a'.fut = none ∧ b'.fut = none)) := by
  intro a' b'
  have := h.step n
  exact ⟨this.out, this.state, this.rd⟩

/-- **Any number of POLLs (same kind of operation).** The decisions split as `ks1 ++ ks2`: through `ks1`
the two runs add the same trace lines and are in the same state, suspended at the same await point; and
either `ks2` is empty or both operations completed at the end of `ks1`. -/
theorem C13_run_same_kind {a b : World} (h : RD a b) (ks : List Nat) :
    ∃ ks1 ks2, ks = ks1 ++ ks2 ∧
      (∃ new, (runD ks1 a).out = new ++ a.out ∧ (runD ks1 b).out = new ++ b.out) ∧
      (runD ks1 a).rest = (runD ks1 b).rest ∧ FutD (runD ks1 a).fut (runD ks1 b).fut ∧
      (ks2 = [] ∨ ((runD ks1 a).fut = none ∧ (runD ks1 b).fut = none)) :=
  h.run ks

/-! ### 3. A request that was not enqueued leaves no trace -/

/-- **Cancelling.** Dropping a future suspended at a `write`, `flush` or `read` await changes neither
session, transports, connection, handles, time, torn marks nor log: only the future and the trace. -/
theorem C13_unenqueued_request_leaves_no_trace (w : World) (pc : Pc) (hf : w.fut = some pc)
    (ht : tearsPacket (some pc) = false) :
    w.cancelFut.rest = w.rest ∧ w.cancelFut.fut = none ∧ w.cancelFut.out = "cancel" :: w.out := by
  unfold World.cancelFut
  have : w.tornAfterDrop = w.tornNets := by unfold World.tornAfterDrop; rw [hf, ht]; rfl
  simp only [hf, Option.isSome_some, if_true]
  rw [this]
  refine ⟨?_, ?_, ?_⟩ <;> first | rfl | trivial

/-- While run A is inside the preliminary flush of an operation (`k` a `…Pre` continuation, the request
lives only in `k`) the relation `RF k` says that its session, transports and log are those of run B — a
`poll` that has never seen the request. So nothing of the request is in the session, and the operation so
far did exactly what a `poll` does. -/
theorem C13_pre_state_is_the_poll_state {k : AfterFlush} {a b : World} (h : RF k a b) :
    a.sess = b.sess ∧ a.nets = b.nets ∧ a.log = b.log ∧ a.conn = b.conn := by
  obtain ⟨h1, h2, h3, _, _, _, _, _, h9⟩ := C13_rest_fields h.rest
  exact ⟨h1, h3, h9, h2⟩

/-- **Starting `subscribe` against starting `poll`**, from the same idle world (no suspended future, live,
no I/O decision, no inbound packet waiting, no keep-alive event due; the request passes the two local
checks): either nothing is left to send and `subscribe` goes straight on to enqueue its request from the
untouched state — or both operations suspend at the same I/O call, related by `RF (.subPre r)`: from then
on (`C13_run_flush_vs_poll`) the subscribe does what the poll does until the queues are drained. -/
theorem C13_start_subscribe_vs_poll (w : World) (r : SubReq) (hf : w.fut = none) (hl : w.live = true)
    (hs : w.slot = none) (ha : w.sess.reader.packetAvailable = false) (hc : KaCalm w.sess.rt w.now)
    (ht : r.topics.isEmpty = false) (hv : (Properties.slice r.props).validFor .Subscribe = true) :
    let a := w.execDirective (.subscribe r)
    let b := w.execDirective .poll
    (∃ u0, a = (ev (.AF u0 (.subPre r))).addOld w.out ∧
      ((u0 = w.rest ∧ w.sess.data.outbound.nextStep = none) ∨ (b.fut = none ∧ u0.fin = b.fin))) ∨
    RF (.subPre r) a b ∨ (a.fut = none ∧ b.fut = none ∧ a.fin = b.fin) := by
  intro a b
  have hcn : w.conn.isSome = true := by
    unfold World.live at hl; cases hcc : w.conn with
    | none => rw [hcc] at hl; cases hl
    | some c => rfl
  have ea : a = (ev (.FL w.rest (.subPre r))).addOld w.out := by
    show w.execDirective (.subscribe r) = _
    unfold World.execDirective
    simp only []
    rw [startOp_idle w hf hcn]
    rw [show (w.rest.addOld w.out).live = true from hl]
    simp only [Bool.not_true, Bool.false_eq_true, if_false, ht, hv]
    exact flushLoop_rest w _
  have eb : b = (ev (.DE w.rest .poll)).addOld w.out := by
    show w.execDirective .poll = _
    unfold World.execDirective
    simp only []
    rw [startOp_idle w hf hcn]
    exact driveEnter_rest w _
  rcases startF (.subPre r) w.rest hl hs ⟨ha, hc⟩ with ⟨hn, he⟩ | hout
  · exact Or.inl ⟨w.rest, by rw [ea, he], Or.inl ⟨rfl, hn⟩⟩
  · rw [ea, eb]
    cases hout with
    | susp h1 h2 h3 h4 h5 => exact Or.inr (Or.inl ⟨h3, ⟨h4.avail, h4.calm⟩, _, _, h1, h2, h5⟩)
    | done h1 h2 h3 => exact Or.inr (Or.inr ⟨h1, h2, h3.same (fun d hd => by cases hd)⟩)
    | handed u0 h1 h2 h3 h4 h5 => exact Or.inl ⟨u0, by rw [h1], Or.inr ⟨h3, h5⟩⟩

/-- **`disconnect` inside its preliminary flush against a `poll`.** One POLL with the same decision: the
worlds are related again; or the queues are drained and `disconnect` goes on to write DISCONNECT from the
state the `poll` ends in; or both calls failed — and then either in the same state (a transport error
ends the connection in both) or, for an error that is not a transport error (`WriteZero`), `disconnect`
has ended the connection and `poll` has not: run A's state is run B's after `handle_disconnect`, and run
A's handle is dead. -/
theorem C13_disconnect_flush_vs_poll {d : Disconnect} {a b : World} (h : RF (.discPre d) a b) (n : Nat) :
    let a' := a.execDirective (.d n)
    let b' := b.execDirective (.d n)
    RF (.discPre d) a' b' ∨
    (∃ u0 oa, a' = wrap (ev (.AF u0 (.discPre d))) oa ∧ b'.fut = none ∧ b'.lastRes = some (.ok ()) ∧ u0.fin = b'.fin) ∨
    (a'.fut = none ∧ b'.fut = none ∧ (a'.fin = b'.fin ∨ (a'.fin = (b'.handleDisconnect).fin ∧ a'.live = false))) := by
  intro a' b'
  cases h.step n with
  | susp h1 => exact Or.inl h1
  | handed u0 oa h1 h2 h3 h4 h5 => exact Or.inr (Or.inl ⟨u0, oa, h1, h3, h4, h5⟩)
  | done h1 h2 h3 =>
    refine Or.inr (Or.inr ⟨h1, h2, ?_⟩)
    rcases h3 with h3 | ⟨_, h3⟩
    · exact Or.inl h3
    · refine Or.inr ⟨h3, ?_⟩
      have hc : a'.conn = (b'.handleDisconnect).conn := (C13_fin_fields h3).2.1
      show World.live a' = false
      unfold World.live; rw [hc]
      exact handleDisconnect_live b'

/-! ### 4. Examples -/

def C13M_cfg : Cfg :=
  { rx := 64, tx := 128, keepaliveS := 0, expiry := 300, downgrade := false, clientId := [0x63], auth := none, will := none }

def C13M_pub : Directive :=
  .publish { qos := 1, retain := false, topic := [0x74], payload := .bytes [0x70], props := .slice [] }

def C13M_sub : Directive :=
  .subscribe { topics := [{ topic := [0x61], opts := { maxQos := 1, noLocal := false, rap := false, rh := 0 } }], props := [] }

/-- A QoS 1 publish of which the transport has accepted 3 bytes: the operation is suspended in its second
flush (`.post`). -/
def C13M_pre1 : List Directive := [.connect, .rx [0x20, 0x03, 0x00, 0x00, 0x00], .go, C13M_pub, .d 3]

/-- Uncancelled (`.d 250`: accept everything; twice: the write, then the flush) against cancelled and
continued with `poll`: the same wire, the same log, the same retained queue. Only the completion differs:
run A registered the handle, run B did not. -/
example :
    let wA := (C13M_pre1 ++ ([.d 250, .d 250] : List Directive)).foldl World.execDirective { sess := Session.new C13M_cfg }
    let wB := (C13M_pre1 ++ ([.poll, .d 250, .d 250] : List Directive)).foldl World.execDirective { sess := Session.new C13M_cfg }
    wA.fut.isNone = true ∧ wB.fut.isNone = true ∧
    wA.nets.map (fun (n : Net) => (n.wire, n.rx)) = wB.nets.map (fun (n : Net) => (n.wire, n.rx)) ∧ wA.log = wB.log ∧
    wA.sess.data.outbound.retained = wB.sess.data.outbound.retained ∧
    wA.sess.data.outbound.control = wB.sess.data.outbound.control ∧ wA.sess.data.packetId = wB.sess.data.packetId ∧
    wA.curNet.wire.drop 29 = ([0x32, 0x07, 0x00, 0x01, 0x74, 0x00, 0x01, 0x00, 0x70] : Bytes) ∧
    wA.handles.length = 1 ∧ wB.handles.length = 0 := by
  decide +kernel

/-- The hypotheses of `C13_reentry_write` hold for that suspended world: not torn, suspended at the
`write` await of the retained entry 1 with 3 of 9 bytes written, in the context of the second flush of the
publish, at the world's time; keep-alive is off, so no keep-alive event is due. -/
example :
    let w := C13M_pre1.foldl World.execDirective { sess := Session.new C13M_cfg }
    w.nets.length ∉ w.tornNets ∧ w.live = true ∧
    (match w.fut with
     | some (.stepWrite (.flush (.post "publish" op)) (.retained 1) bytes 3 9 now) =>
       decide (op.id = 1) && decide (bytes.length = 9) && decide (now = w.now)
     | _ => false) = true ∧
    KaCalm w.sess.rt w.now := by
  intro w
  have h : w.nets.length ∉ w.tornNets ∧ w.live = true ∧
      (match w.fut with
       | some (.stepWrite (.flush (.post "publish" op)) (.retained 1) bytes 3 9 now) =>
         decide (op.id = 1) && decide (bytes.length = 9) && decide (now = w.now)
       | _ => false) = true ∧ w.sess.rt.nextPing = none ∧ w.sess.rt.pingTimeout = none := by
    decide +kernel
  refine ⟨h.1, h.2.1, h.2.2.1, ?_, ?_⟩
  · intro np hnp; rw [h.2.2.2.1] at hnp; cases hnp
  · intro pt hpt; rw [h.2.2.2.2] at hpt; cases hpt

/-- The publish is dropped with 3 bytes on the wire; a subscribe is started, whose preliminary flush
continues that packet (2 more bytes) — and is cancelled there. -/
def C13M_pre2 : List Directive :=
  [.connect, .rx [0x20, 0x03, 0x00, 0x00, 0x00], .go, C13M_pub, .d 3, .cancel, C13M_sub, .d 2]

/-- Cancelled and continued with `poll`: the PUBLISH completes, the SUBSCRIBE never appears — not on the
wire, not in the log, not in the retained queue, and no identifier was consumed. Uncancelled, with the same
decisions: the same wire and log (the PUBLISH completes identically); the SUBSCRIBE has just been enqueued
(identifier 2) and is about to be written. -/
example :
    let wA := (C13M_pre2 ++ ([.d 250, .d 250] : List Directive)).foldl World.execDirective { sess := Session.new C13M_cfg }
    let wB := (C13M_pre2 ++ ([.poll, .d 250, .d 250] : List Directive)).foldl World.execDirective { sess := Session.new C13M_cfg }
    wB.fut.isNone = true ∧
    wA.nets.map (fun (n : Net) => (n.wire, n.rx)) = wB.nets.map (fun (n : Net) => (n.wire, n.rx)) ∧ wA.log = wB.log ∧
    wB.curNet.wire.drop 29 = ([0x32, 0x07, 0x00, 0x01, 0x74, 0x00, 0x01, 0x00, 0x70] : Bytes) ∧
    wB.log.map (fun (f : LogEntry) => f.tag) = [Tag.retained 0 1] ∧
    wB.sess.data.outbound.retained.map (fun (e : RetainedPacket) => (e.ser, e.id)) = [(0, 1)] ∧ wB.sess.data.packetId = 2 ∧
    wA.sess.data.outbound.retained.map (fun (e : RetainedPacket) => (e.ser, e.id)) = [(0, 1), (1, 2)] := by
  decide +kernel

/-! ### The corner that the keep-alive hypothesis excludes -/

def C13M_cfgKa : Cfg :=
  { rx := 64, tx := 128, keepaliveS := 10, expiry := 300, downgrade := false, clientId := [0x63], auth := none, will := none }

/-- Keep-alive 10 s. A QoS 1 publish is enqueued but the transport accepts nothing (the entry still
waits for its first byte); 5 s pass: the PINGREQ becomes due. -/
def C13M_preKa : List Directive := [.connect, .rx [0x20, 0x03, 0x00, 0x00, 0x00], .go, C13M_pub, .tick 5000000]

/-- **The corner.** Resumed, the publish writes its packet and the PINGREQ follows; cancelled and
re-entered through `poll`, `service` queues the PINGREQ before it asks the scheduler, and a control entry
goes before a retained entry that has not started: the PINGREQ is written first. The two runs put the same
packets on the wire in a different order (`c0 00` is the PINGREQ). `KaCalm` fails for the suspended world:
the next PINGREQ is due at exactly `now`. (For an entry of which at least one byte is written the order is
the same in both runs: an entry in progress goes first.) -/
theorem C13_corner_pingreq_reorders :
    let w := C13M_preKa.foldl World.execDirective { sess := Session.new C13M_cfgKa }
    let wA := (C13M_preKa ++ ([.d 250, .d 250, .d 250, .d 250] : List Directive)).foldl World.execDirective { sess := Session.new C13M_cfgKa }
    let wB := (C13M_preKa ++ ([.poll, .d 250, .d 250, .d 250, .d 250] : List Directive)).foldl World.execDirective { sess := Session.new C13M_cfgKa }
    w.sess.rt.nextPing = some w.now ∧
    wA.curNet.wire.drop 29 = ([0x32, 0x07, 0x00, 0x01, 0x74, 0x00, 0x01, 0x00, 0x70, 0xc0, 0x00] : Bytes) ∧
    wB.curNet.wire.drop 29 = ([0xc0, 0x00, 0x32, 0x07, 0x00, 0x01, 0x74, 0x00, 0x01, 0x00, 0x70] : Bytes) := by
  decide +kernel

end Minimq
