import Minimq.Proofs.PubrecRoom
import Minimq.Theorems.C03
import Minimq.Theorems.C16Quiesce
/-
C03 / C06 — a successful PUBREC always finds room for its PUBREL.

`C03_pubrec` lists what `handle_packet` does with a PUBREC; one of the outcomes is
`Resource.InflightExhausted`: the retained QoS 2 PUBLISH has been removed, but the release queue
(`MAX_PENDING_RELEASE = 8` entries) is full, so no PUBREL entry is made — the exchange would be dropped half-way.
`C06_pubrec_has_room_partial` showed that this cannot happen IF the send-quota invariant holds. Here the
invariant is no longer a hypothesis: `C06_quota_books_balance` (`Proofs/QuotaEq.lean`) gives it after every
program, on a live handle with `deficit` clear, and the statements below are about every world a program
can produce.

The counting argument (`release_room_of_bal`, `Proofs/PubrecRoom.lean`): a retained QoS 2 PUBLISH that awaits
its PUBREC is counted by `inflight_publishes` together with every release entry; `send_quota +
inflight_publishes = max_send_quota ≤ min(MAX_RETAINED, MAX_PENDING_RELEASE) = 8`; hence
`release.length + 1 ≤ 8`.

Hypotheses, and why they are there:
* `live`: `handle_packet` is only ever called from `drive_packet`, which checks the handle at entry; on a
  dead handle the quota books need not balance (F19, `C06_balance_needs_live`).
* `deficit = false`: finding F5c (`C06_balance_needs_no_deficit`) — after a CONNACK whose Receive Maximum is
  below the number of publishes to replay the balance `send_quota + inflight = max_send_quota` is not
  available; nothing is claimed for that case here.
-/
namespace Minimq
open Gen World Outbound

/-- **No PUBREC is ever answered with `Resource.InflightExhausted`.** After any program — API calls, I/O
decisions, inbound bytes of any kind, ticks, cancellations, drops, reconnects —, if the connection handle is
live and `deficit` is clear, then whatever PUBREC arrives next (any identifier, any reason code, with or
without a matching PUBLISH), `handle_packet` does not fail for lack of a release slot: no QoS 2 exchange is
dropped because too many of them are waiting for their PUBCOMP. -/
theorem C06_pubrec_never_exhausted (cfg : Cfg) (ds : List Directive) (id : Nat) (rs : ReasonIn) :
    let w := ds.foldl World.execDirective { sess := Session.new cfg }
    w.live = true → w.sess.rt.deficit = false →
    (handlePacket w.sess.data w.sess.rt (.pubRec id rs)).2.2 ≠ .error .inflightExhausted := by
  intro w hl hd
  obtain ⟨ha, hb⟩ := run_arena_bal cfg ds
  exact pubrec_not_exhausted w.sess.data w.sess.rt id rs ha (hb hl) hd

/-- The same through `Session.handle` (the primitive `process_received_packet` calls). -/
theorem C06_pubrec_never_exhausted_handle (cfg : Cfg) (ds : List Directive) (id : Nat) (rs : ReasonIn) :
    let w := ds.foldl World.execDirective { sess := Session.new cfg }
    w.live = true → w.sess.rt.deficit = false →
    (w.sess.handle (.pubRec id rs)).2 ≠ .error .inflightExhausted :=
  fun hl hd => C06_pubrec_never_exhausted cfg ds id rs hl hd

/-- **The release queue has room whenever a QoS 2 PUBLISH awaits its PUBREC**: in every world a program
produces, live and `deficit` clear, a retained QoS 2 PUBLISH with identifier `id` means that fewer than
`MAX_PENDING_RELEASE` PUBRELs are waiting for their PUBCOMP — the capacity hypothesis `hcap` of
`C03_pubrec_success` always holds. -/
theorem C06_release_queue_has_room (cfg : Cfg) (ds : List Directive) (id : Nat) :
    let w := ds.foldl World.execDirective { sess := Session.new cfg }
    w.live = true → w.sess.rt.deficit = false → w.sess.data.awaits id .pubRec = true →
    w.sess.data.outbound.release.length < MAX_PENDING_RELEASE := by
  intro w hl hd hf
  obtain ⟨ha, hb⟩ := run_arena_bal cfg ds
  exact release_room_of_bal w.sess.data w.sess.rt id ha (hb hl) hd hf

/-- **The PUBREL is queued.** In every world a program produces, live and `deficit` clear: a PUBREC with a
success code that finds its PUBLISH (a retained QoS 2 PUBLISH with that identifier), the 4-byte PUBREL being
within the broker's Maximum Packet Size (`packetTooLarge 5 = false`, the bound `check_pubrel_size` uses; else
`Resource.PacketTooLarge` and the connection ends, `C06Balance`), is handled with `Ok`: the runtime is
unchanged, the release queue is what it was plus ONE new LAST entry — identifier `id`, reason Success, not yet
written, with the next release serial and the serial of the PUBLISH it continues —, the control queue is
untouched, and from the retained queue exactly the first QoS 2 PUBLISH with that identifier is gone.
(`C03_pubrec_success` with its capacity hypothesis discharged.) -/
theorem C06_pubrec_queues_pubrel (cfg : Cfg) (ds : List Directive) (id : Nat) (rs : ReasonIn) :
    let w := ds.foldl World.execDirective { sess := Session.new cfg }
    let d := w.sess.data
    let d' := (handlePacket d w.sess.rt (.pubRec id rs)).1
    w.live = true → w.sess.rt.deficit = false →
    d.awaits id .pubRec = true → reasonSuccess rs.rc = true → w.sess.rt.packetTooLarge 5 = false →
    (handlePacket d w.sess.rt (.pubRec id rs)).2 = (w.sess.rt, .ok false) ∧
    d'.outbound.release = d.outbound.release ++
      [{ id := id, rc := RC_Success, state := .write 0, rser := d.outbound.nextRser, pser := d.outbound.ackedSer id .pubRec }] ∧
    d'.outbound.release.getLast?.map (·.id) = some id ∧
    d'.outbound.release.length = d.outbound.release.length + 1 ∧
    d'.outbound.control = d.outbound.control ∧
    ∃ l₁ e l₂, d.outbound.retained = l₁ ++ e :: l₂ ∧ (∀ x ∈ l₁, ackPred d.outbound id .pubRec x = false) ∧
      e.id = id ∧ AckKind.pubRec.acknowledges (d.outbound.headerAt e.offset) = true ∧
      d'.outbound.keys = (l₁ ++ l₂).map RetainedPacket.key := by
  intro w d d' hl hd hf hok hsz
  have hcap := C06_release_queue_has_room cfg ds id hl hd hf
  obtain ⟨h1, h2, h3, h4⟩ := C03_pubrec_success d w.sess.rt id rs hf hok hsz hcap
  refine ⟨h1, h2, ?_, ?_, h3, h4⟩
  · show (handlePacket d w.sess.rt (.pubRec id rs)).1.outbound.release.getLast?.map (·.id) = some id
    rw [h2]; simp
  · show (handlePacket d w.sess.rt (.pubRec id rs)).1.outbound.release.length = _
    rw [h2]; simp

/-! ### Non-vacuity -/

/-- Eight QoS 2 publishes are sent (the whole window of 8); PUBRECs for the first seven arrive and are
handled, their PUBRELs are sent: seven release entries wait for PUBCOMP, the eighth PUBLISH (identifier 8)
waits for its PUBREC. The application waits in `recv()`. -/
def C06R_prog : List Directive :=
  [.connect, .rx [0x20, 0x03, 0x00, 0x00, 0x00], .go,
   C16Q_pub 2 0x74 0x70, .go, C16Q_pub 2 0x74 0x71, .go, C16Q_pub 2 0x74 0x72, .go, C16Q_pub 2 0x74 0x73, .go,
   C16Q_pub 2 0x74 0x74, .go, C16Q_pub 2 0x74 0x75, .go, C16Q_pub 2 0x74 0x76, .go, C16Q_pub 2 0x74 0x77, .go,
   .rx [0x50, 0x02, 0x00, 0x01, 0x50, 0x02, 0x00, 0x02, 0x50, 0x02, 0x00, 0x03, 0x50, 0x02, 0x00, 0x04,
        0x50, 0x02, 0x00, 0x05, 0x50, 0x02, 0x00, 0x06, 0x50, 0x02, 0x00, 0x07], .recv, .go]

def C06R_w : World := C06R_prog.foldl World.execDirective { sess := Session.new C16Q_cfg }

/-- The hypotheses hold of it, at the boundary: seven of the eight release slots are taken, the send quota is
used up (0 of 8), one QoS 2 PUBLISH awaits its PUBREC. -/
theorem C06R_w_facts :
    C06R_w.live = true ∧ C06R_w.sess.rt.deficit = false ∧ C06R_w.sess.data.awaits 8 .pubRec = true ∧
    C06R_w.sess.rt.packetTooLarge 5 = false ∧
    C06R_w.sess.data.outbound.release.length = 7 ∧ C06R_w.sess.data.outbound.retained.length = 1 ∧
    C06R_w.sess.rt.sendQuota = 0 ∧ C06R_w.sess.rt.maxSendQuota = 8 ∧ MAX_PENDING_RELEASE = 8 := by
  decide +kernel

/-- …and the theorems apply: PUBREC(8, Success) is not refused, and the eighth release entry is made. -/
example :
    (handlePacket C06R_w.sess.data C06R_w.sess.rt (.pubRec 8 { code := none, props := none })).2.2 ≠ .error .inflightExhausted ∧
    (handlePacket C06R_w.sess.data C06R_w.sess.rt (.pubRec 8 { code := none, props := none })).1.outbound.release.length = 8 ∧
    (handlePacket C06R_w.sess.data C06R_w.sess.rt (.pubRec 8 { code := none, props := none })).1.outbound.release.getLast?.map (·.id) = some 8 := by
  obtain ⟨hl, hd, hf, hsz, hlen, _⟩ := C06R_w_facts
  unfold C06R_w at hl hd hf hsz hlen ⊢
  have h := C06_pubrec_queues_pubrel C16Q_cfg C06R_prog 8 { code := none, props := none } hl hd hf (by decide) hsz
  exact ⟨C06_pubrec_never_exhausted C16Q_cfg C06R_prog 8 _ hl hd, by rw [h.2.2.2.1, hlen], h.2.2.1⟩

/-- The same, computed: the release queue afterwards holds identifiers 1 … 8, the result is `Ok`. -/
example :
    (handlePacket C06R_w.sess.data C06R_w.sess.rt (.pubRec 8 { code := none, props := none })).1.outbound.release.map (·.id) =
      [1, 2, 3, 4, 5, 6, 7, 8] ∧
    (match (handlePacket C06R_w.sess.data C06R_w.sess.rt (.pubRec 8 { code := none, props := none })).2.2 with
      | .ok false => true | _ => false) = true := by
  decide +kernel

/-- What the counting argument excludes, in isolation: a state that no program produces — eight release
entries AND a retained QoS 2 PUBLISH (nine exchanges in flight, window 8) — in which the PUBREC is answered
with `Resource.InflightExhausted` and the exchange is lost (the PUBLISH is gone, no PUBREL is queued). -/
example :
    let rel : List PendingRelease := (List.range 8).map fun i => { id := i + 1, rc := 0, state := .sent, rser := i, pser := i }
    let o : Outbound := { (Outbound.new 32) with
      buf := [0x34, 0, 0] ++ List.replicate 29 0, used := 3, nextSer := 9, nextRser := 8,
      retained := [{ id := 9, offset := 0, len := 3, state := .sent, ser := 8 }], release := rel }
    let r : Runtime := { keepaliveMs := 0, configuredKeepaliveMs := 0, sendQuota := 0, maxSendQuota := 8 }
    let res := handlePacket { outbound := o } r (.pubRec 9 { code := none, props := none })
    o.inflightPublishes = 9 ∧ (match res.2.2 with | .error .inflightExhausted => true | _ => false) = true ∧
    res.1.outbound.retained = [] ∧
    res.1.outbound.release.length = 8 := by
  decide

end Minimq
