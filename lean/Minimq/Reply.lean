import Minimq.Packets
/-
`InboundPublish::reply`, `reply_owned` (`src/mqtt_client/mod.rs`) and `ResponseTarget`,
`OwnedResponseTarget` (`src/publication.rs`).
-/
namespace Minimq
open Gen

/-- `ResponseTarget`: response topic and correlation data of an inbound publish. -/
structure ResponseTarget where
  topic : Bytes
  correlationData : Option Bytes
  deriving Repr, DecidableEq, Inhabited

/-- `InboundPublish::response_target` on the property block of the inbound publish. -/
def responseTarget (block : Bytes) : Option ResponseTarget :=
  match (Properties.encoded block).responseTopic with
  | none => none
  | some t => some { topic := t, correlationData := (Properties.encoded block).correlationData }

/-- `ResponseTarget::publication` / `OwnedResponseTarget::publication`: QoS 0, not retained, the
correlation data as the only property. -/
def ResponseTarget.publication (t : ResponseTarget) : PublishHeader :=
  { topic := t.topic, packetId := none, retain := false, qos := 0, dup := false,
    props := match t.correlationData with
      | some c => (Properties.slice []).withCorrelationData c
      | none => Properties.slice [] }

/-- `Publication::properties` on a publication header. -/
def PublishHeader.withProperties (h : PublishHeader) (ps : List Property) : PublishHeader :=
  { h with props := h.props.withProperties ps }

/-- `ResponseTarget::to_owned::<TOPIC, CORRELATION>`: `none` = `ResourceError::BufferTooSmall`. -/
def ResponseTarget.toOwned (t : ResponseTarget) (topicCap corrCap : Nat) : Option ResponseTarget :=
  if t.topic.length > topicCap then none else
  match t.correlationData with
  | some c => if c.length > corrCap then none else some t
  | none => some t

end Minimq
