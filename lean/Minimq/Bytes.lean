/-
Byte strings and big-endian helpers. Core Lean only.
-/
namespace Minimq

abbrev Bytes := List UInt8

def b (n : Nat) : UInt8 := UInt8.ofNat n

/-- Big-endian u16 (Rust `u16::to_be_bytes`); callers guarantee `n < 65536`. -/
def u16be (n : Nat) : Bytes := [b (n / 256 % 256), b (n % 256)]

/-- Big-endian u32; callers guarantee `n < 2^32`. -/
def u32be (n : Nat) : Bytes :=
  [b (n / 16777216 % 256), b (n / 65536 % 256), b (n / 256 % 256), b (n % 256)]

def u16of (hi lo : UInt8) : Nat := hi.toNat * 256 + lo.toNat

def u32of (b3 b2 b1 b0 : UInt8) : Nat :=
  b3.toNat * 16777216 + b2.toNat * 65536 + b1.toNat * 256 + b0.toNat

/-! Hex rendering (trace format: lower case, `-` for the empty string). -/

def hexDigit (n : Nat) : Char :=
  if n < 10 then Char.ofNat (48 + n) else Char.ofNat (87 + n)

def hexByte (x : UInt8) : List Char := [hexDigit (x.toNat / 16), hexDigit (x.toNat % 16)]

def hexRaw (bs : Bytes) : String := String.ofList (bs.flatMap hexByte)

def hex (bs : Bytes) : String := if bs.isEmpty then "-" else hexRaw bs

def hex2 (n : Nat) : String := hexRaw [b n]

def unhexDigit (c : Char) : Option Nat :=
  if '0' ≤ c ∧ c ≤ '9' then some (c.toNat - 48)
  else if 'a' ≤ c ∧ c ≤ 'f' then some (c.toNat - 87)
  else none

def unhexList : List Char → Option Bytes
  | [] => some []
  | [_] => none
  | c1 :: c2 :: rest =>
    match unhexDigit c1, unhexDigit c2, unhexList rest with
    | some h, some l, some r => some (b (h * 16 + l) :: r)
    | _, _, _ => none

/-- Parse a hex field; `-` is the empty string. -/
def unhex (s : String) : Option Bytes :=
  if s == "-" then some [] else unhexList s.toList

/-- Overwrite `bs` at position `off` with `src` (Rust `buf[off..off+src.len()].copy_from_slice`). -/
def setRange (bs : Bytes) (off : Nat) (src : Bytes) : Bytes :=
  bs.take off ++ src ++ bs.drop (off + src.length)

def slice (bs : Bytes) (off len : Nat) : Bytes := (bs.drop off).take len

end Minimq
