import Minimq.Varint
import Minimq.Utf8
/-
`src/properties.rs`: properties, their size, encoding, decoding and lazy iteration.
-/
namespace Minimq
open Gen

/-- Payload of a property. Strings are byte strings that are valid UTF-8 by construction
(Rust `&str`); the decoder checks validity. -/
inductive PVal where
  | n (v : Nat)
  | s (bs : Bytes)
  | p (k v : Bytes)
  deriving DecidableEq, Repr, Inhabited

structure Property where
  kind : PropKind
  val : PVal
  deriving DecidableEq, Repr, Inhabited

/-- The value has the type that `enum Property` declares for this kind. -/
def Property.wf (p : Property) : Bool :=
  match p.kind.declShape, p.val with
  | .u8, .n v => v < 256
  | .u16, .n v => v < 65536
  | .u32, .n v => v < 4294967296
  | .varint, .n v => v < 4294967296
  | .str, .s bs => validUtf8 bs
  | .bin, .s _ => true
  | .pair, .p k v => validUtf8 k && validUtf8 v
  | _, _ => false

def PVal.len1 : PVal → Nat
  | .s bs => bs.length
  | .p k _ => k.length
  | .n _ => 0
def PVal.len2 : PVal → Nat
  | .p _ v => v.length
  | _ => 0
def PVal.num : PVal → Nat
  | .n v => v
  | _ => 0

/-- `Property::size`. -/
def Property.size (p : Property) : Nat :=
  p.kind.sizeExpr p.val.len1 p.val.len2 (varintLen p.val.num) (varintLen p.kind.id)

/-- Serializer error kinds (`ser::Error`). -/
inductive SerErr where
  | insufficientMemory | custom
  deriving DecidableEq, Repr, Inhabited

/-- Length-prefixed field (`Utf8String` / `BinaryData`): `Custom` above 65535 bytes. -/
def lenPrefixed (bs : Bytes) : Except SerErr Bytes :=
  if bs.length > 65535 then .error .custom else .ok (u16be bs.length ++ bs)

def varintField (v : Nat) : Except SerErr Bytes :=
  match writeVarint v with
  | some bs => .ok bs
  | none => .error .custom

/-- The chunks `impl Serialize for Property` pushes, in order; each chunk is produced (and may
fail with `Custom`) before it is pushed (and may fail with `InsufficientMemory`). -/
def Property.chunks (p : Property) : List (Except SerErr Bytes) :=
  varintField p.kind.id ::
  match p.kind.serShape, p.val with
  | .u8, .n v => [.ok [b v]]
  | .u16, .n v => [.ok (u16be v)]
  | .u32, .n v => [.ok (u32be v)]
  | .varint, .n v => [varintField v]
  | .str, .s bs => [lenPrefixed bs]
  | .bin, .s bs => [lenPrefixed bs]
  | .pair, .p k v => [lenPrefixed k, lenPrefixed v]
  | _, _ => [.error .custom]

/-- All chunks concatenated, or the first failure. -/
def catChunks : List (Except SerErr Bytes) → Except SerErr Bytes
  | [] => .ok []
  | .error e :: _ => .error e
  | .ok x :: cs =>
    match catChunks cs with
    | .ok r => .ok (x ++ r)
    | .error e => .error e

/-- Unbounded encoding of one property (all chunks concatenated) when no chunk fails. -/
def Property.encode (p : Property) : Except SerErr Bytes := catChunks p.chunks

/-! ### Decoding one property (`Property::deserialize` on an `MqttDeserializer`) -/

def takeN (bs : Bytes) (n : Nat) : Option (Bytes × Bytes) :=
  if bs.length < n then none else some (bs.take n, bs.drop n)

def readU16 : Bytes → Option (Nat × Bytes)
  | hi :: lo :: r => some (u16of hi lo, r)
  | _ => none

def readU32 : Bytes → Option (Nat × Bytes)
  | b3 :: b2 :: b1 :: b0 :: r => some (u32of b3 b2 b1 b0, r)
  | _ => none

/-- `deserialize_str`: u16 length, bytes, UTF-8 check. -/
def readStr (bs : Bytes) : Option (Bytes × Bytes) :=
  match readU16 bs with
  | none => none
  | some (n, r) =>
    match takeN r n with
    | none => none
    | some (s, r') => if validUtf8 s then some (s, r') else none

/-- `deserialize_bytes` without a length override. -/
def readBin (bs : Bytes) : Option (Bytes × Bytes) :=
  match readU16 bs with
  | none => none
  | some (n, r) => takeN r n

def kindOfId (id : Nat) : Option PropKind :=
  PropKind.all.find? (fun k => k.id == id)

def readVal (sh : Shape) (bs : Bytes) : Option (PVal × Bytes) :=
  match sh with
  | .u8 => match bs with
    | x :: r => some (.n x.toNat, r)
    | [] => none
  | .u16 => (readU16 bs).map fun (v, r) => (.n v, r)
  | .u32 => (readU32 bs).map fun (v, r) => (.n v, r)
  | .varint => (decodeVarint bs).map fun (v, r) => (.n v, r)
  | .str => (readStr bs).map fun (s, r) => (.s s, r)
  | .bin => (readBin bs).map fun (s, r) => (.s s, r)
  | .pair =>
    match readStr bs with
    | none => none
    | some (k, r) =>
      match readStr r with
      | none => none
      | some (v, r') => some (.p k v, r')

/-- Result of decoding at the head of `bs`: the property (or an error) and the number of bytes the
deserializer had consumed when it stopped (`deserialized_bytes`). On error the real deserializer
has consumed *some* prefix; the iterator advances by exactly that amount. -/
structure PropStep where
  result : Option Property
  consumed : Nat
  deriving Repr

/-- Bytes consumed by a failing read of shape `sh` (how far the real deserializer's index moved
before the error). -/
def failConsumed (sh : Shape) (bs : Bytes) : Nat :=
  match sh with
  | .u8 => 0
  | .u16 => min bs.length 2            -- `read_u16` pops byte by byte
  | .u32 => 0                          -- `try_take_n(4)` takes all or nothing
  | .varint =>                         -- pops until the error
    match bs with
    | [] => 0
    | b0 :: r0 => if b0.toNat < 128 then 1 else
      match r0 with
      | [] => 1
      | b1 :: r1 => if b1.toNat < 128 then 2 else
        match r1 with
        | [] => 2
        | b2 :: r2 => if b2.toNat < 128 then 3 else
          match r2 with
          | [] => 3
          | _ :: _ => 4
  | .str | .bin =>
    match readU16 bs with
    | none => min bs.length 2
    | some (n, r) => if r.length < n then 2 else 2 + n   -- bad UTF-8: bytes already taken
  | .pair =>
    match readStr bs with
    | none =>
      (match readU16 bs with
       | none => min bs.length 2
       | some (n, r) => if r.length < n then 2 else 2 + n)
    | some (_, r) =>
      (bs.length - r.length) +
      (match readU16 r with
       | none => min r.length 2
       | some (n, r') => if r'.length < n then 2 else 2 + n)

def decodeProp (bs : Bytes) : PropStep :=
  match decodeVarint bs with
  | none => { result := none, consumed := failConsumed .varint bs }
  | some (id, r) =>
    let idLen := bs.length - r.length
    match kindOfId id with
    | none => { result := none, consumed := idLen }
    | some k =>
      match readVal k.deShape r with
      | none => { result := none, consumed := idLen + failConsumed k.deShape r }
      | some (v, r') => { result := some { kind := k, val := v }, consumed := bs.length - r'.length }

/-- `PropertiesIter` over an encoded block: every item is a property or an error. -/
def iterEncodedFuel : Nat → Bytes → List (Option Property)
  | 0, _ => []
  | fuel + 1, bs =>
    if bs.isEmpty then [] else
    let st := decodeProp bs
    st.result :: iterEncodedFuel fuel (bs.drop st.consumed)

def iterEncoded (bs : Bytes) : List (Option Property) := iterEncodedFuel (bs.length + 1) bs

/-- `PropertiesData`. -/
inductive Properties where
  | slice (ps : List Property)
  | encoded (block : Bytes)
  | withCorrelation (c : Property) (ps : List Property)
  deriving Repr, Inhabited

def corrProp (data : Bytes) : Property := { kind := .CorrelationData, val := .s data }

def Properties.iter : Properties → List (Option Property)
  | .slice ps => ps.map some
  | .encoded block => iterEncoded block
  | .withCorrelation c ps => some c :: ps.map some

/-- `Properties::size` (note the order `properties.chain([correlation])`; sums commute). -/
def Properties.size : Properties → Nat
  | .slice ps => (ps.map Property.size).sum
  | .withCorrelation c ps => ((ps ++ [c]).map Property.size).sum
  | .encoded block => block.length

def Properties.withProperties (self : Properties) (ps : List Property) : Properties :=
  match self with
  | .withCorrelation c _ => .withCorrelation c ps
  | _ => .slice ps

def Properties.withCorrelationData (self : Properties) (data : Bytes) : Properties :=
  match self with
  | .slice ps => .withCorrelation (corrProp data) ps
  | .withCorrelation _ ps => .withCorrelation (corrProp data) ps
  | .encoded _ => .withCorrelation (corrProp data) []

/-- `Property::is_valid_for`. -/
def Property.validFor (p : Property) (c : Ctx) : Bool :=
  p.kind.validValue p.val.num && validCtx c p.kind

/-- `Properties::valid_for`. -/
def Properties.validFor (ps : Properties) (c : Ctx) : Bool :=
  ps.iter.all fun
    | some p => p.validFor c
    | none => false

def firstOf (k : PropKind) : List (Option Property) → Option Bytes
  | [] => none
  | some p :: rest =>
    if p.kind = k then
      (match p.val with
       | .s bs => some bs
       | _ => firstOf k rest)
    else firstOf k rest
  | none :: rest => firstOf k rest

/-- `Properties::response_topic`. -/
def Properties.responseTopic (ps : Properties) : Option Bytes := firstOf .ResponseTopic ps.iter
/-- `Properties::correlation_data`. -/
def Properties.correlationData (ps : Properties) : Option Bytes := firstOf .CorrelationData ps.iter

end Minimq
