import Minimq.World
import Minimq.Reply
/-
Text forms shared by the driver: properties (PROTOCOL.md §1.2), state lines (§3.3), messages (§3.2).
-/
namespace Minimq
open Gen

def joinWith (sep : String) : List String → String
  | [] => ""
  | [x] => x
  | x :: xs => x ++ sep ++ joinWith sep xs

def listOr (l : List String) : String := if l.isEmpty then "-" else joinWith "," l

def propToString (p : Property) : String :=
  hex2 p.kind.id ++ "=" ++
  match p.val with
  | .n v => toString v
  | .s bs => hex bs
  | .p k v => hex k ++ "/" ++ hex v

def optPropToString : Option Property → String
  | some p => propToString p
  | none => "err"

def parseProp (s : String) : Option Property :=
  match s.splitOn "=" with
  | [idh, v] =>
    match unhex idh with
    | some [idb] =>
      match kindOfId idb.toNat with
      | none => none
      | some k =>
        match k.declShape with
        | .str | .bin => (unhex v).map fun bs => { kind := k, val := .s bs }
        | .pair =>
          match v.splitOn "/" with
          | [a, c] =>
            match unhex a, unhex c with
            | some ka, some va => some { kind := k, val := .p ka va }
            | _, _ => none
          | _ => none
        | _ => v.toNat?.map fun n => { kind := k, val := .n n }
    | _ => none
  | _ => none

def parseProps (s : String) : Option (List Property) :=
  if s == "-" then some [] else
  (s.splitOn ",").foldr (fun item acc =>
    match parseProp item, acc with
    | some p, some l => some (p :: l)
    | _, _ => none) (some [])

def stName : SendState → String
  | .write n => s!"w{n}"
  | .flush => "f"
  | .sent => "s"

def optNat : Option Nat → String
  | some n => toString n
  | none => "-"

def stateLine (w : World) : String :=
  let s := w.sess
  let o := s.data.outbound
  let live := match w.conn with
    | some c => if c.live then "1" else "0"
    | none => "-"
  let ret := listOr (o.retained.map fun e => s!"{e.id}:{e.offset}:{e.len}:{stName e.state}")
  let rel := listOr (o.release.map fun e => s!"{e.id}:{hex2 e.rc}:{stName e.state}")
  let ctl := listOr (o.control.map fun e => s!"{e.action.typ}:{e.action.id}:{hex2 e.action.rc}:{stName e.state}")
  let in2 := listOr (s.data.pendingServerIds.map toString)
  let bit (x : Bool) := if x then "1" else "0"
  s!"s live={live} pid={s.data.packetId} gen={s.data.generation} sp={bit s.data.sessionPresent} res={bit s.rt.sessionResumed} used={o.used} ret={ret} rel={rel} ctl={ctl} in2={in2} q={s.rt.sendQuota}/{s.rt.maxSendQuota} mps={optNat s.rt.maximumPacketSize} mq={optNat s.rt.maxQos} ka={s.rt.keepaliveMs} np={optNat s.rt.nextPing} pt={optNat s.rt.pingTimeout} rd={s.reader.readBytes}/{optNat s.reader.packetLength}"

def handleLine (w : World) : String :=
  if w.handles.isEmpty then "h -" else
  "h " ++ String.ofList (w.handles.map fun op =>
    match w.sess.data.status op with
    | .pending => 'p'
    | .complete => 'c'
    | .invalidated => 'i')

def capLine (w : World) : String :=
  let bit (x : Bool) := if x then "1" else "0"
  let cp (q : Nat) := bit (w.live && canPublishS w.sess.data w.sess.rt q)
  s!"c cp={cp 0}{cp 1}{cp 2} qu={bit w.sess.data.outbound.isQuiescent}"

def World.emitState (w : World) : World :=
  ((w.emit (stateLine w)).emit (handleLine w)).emit (capLine w)

/-- QoS 0 PUBLISH of a reply publication on the side session (70000-byte arena). -/
def sidePublish (h : PublishHeader) : String :=
  match encodePublishWithOffset 70000 h (.bytes [0x52]) with
  | .ok (_, pkt) => hex pkt
  | .error e => "err " ++ World.errName (match e with
      | .payload => Err.payload
      | .encode se => Err.ofSer se)

def ownedSizes : List (Nat × Nat) :=
  [(0,0), (1,0), (0,1), (2,2), (3,3), (4,4), (8,8), (16,4), (4,16), (64,64)]

def kvProp : Property := { kind := .UserProperty, val := .p [0x6b] [0x76] }

/-- The lines describing a delivered message (PROTOCOL.md §3.2). -/
def msgLines (topic payload : Bytes) (qos : Nat) (retain : Bool) (block : Bytes) : List String :=
  let props := Properties.encoded block
  let it := props.iter
  let rt := props.responseTopic
  let cd := props.correlationData
  let optHex : Option Bytes → String := fun
    | some bs => hex bs
    | none => "none"
  let iterS := if it.isEmpty then "-" else joinWith ";" (it.map optPropToString)
  let target := responseTarget block
  let reply := match target with
    | some t => sidePublish t.publication
    | none => "none"
  let replyp := match target with
    | some t => sidePublish (t.publication.withProperties [kvProp])
    | none => "none"
  let owned := ownedSizes.map fun (tc, cc) =>
    s!"owned {tc}/{cc} " ++
    match target with
    | none => "none"
    | some t =>
      match t.toOwned tc cc with
      | none => "err"
      | some o => s!"ok {hex o.topic} {optHex o.correlationData}"
  [s!"msg topic={hex topic} payload={hex payload} qos={qos} retain={if retain then 1 else 0} props={hex block} iter={iterS} rt={optHex rt} cd={optHex cd}",
   s!"reply {reply}", s!"replyp {replyp}"] ++ owned ++ [s!"ownedpub {replyp}"]

end Minimq
