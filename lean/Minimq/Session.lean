import Minimq.Out
import Minimq.Reader
/-
`src/mqtt_client/session/state.rs`, `inbound.rs` (handle_packet) and the status/can_publish
queries of `session/mod.rs`.
-/
namespace Minimq
open Gen

/-- `Error<E>` / `PubError` as seen by the application. `transport k`: 252 ConnectionReset,
253 BrokenPipe, 254 TimedOut, 255 Other. -/
inductive Err where
  | notReady | disconnected | invalidRequest | writeZero
  | peerInvalid | peerRejected (rc : Nat)
  | bufferTooSmall | packetTooLarge | inflightExhausted
  | transport (kind : Nat)
  | payload
  | noConnection            -- harness-level: operation without a connection
  deriving DecidableEq, Repr, Inhabited

def Err.ofSer : SerErr → Err
  | .insufficientMemory => .bufferTooSmall
  | .custom => .invalidRequest

structure Runtime where
  sessionResumed : Bool := false
  keepaliveMs : Nat                 -- effective keep-alive of the current connection
  configuredKeepaliveMs : Nat
  sendQuota : Nat := 65535
  maxSendQuota : Nat := 65535
  maximumPacketSize : Option Nat := none
  maxQos : Option Nat := none
  nextPing : Option Nat := none     -- µs
  pingTimeout : Option Nat := none  -- µs
  /-- Ghost (not in the code, never printed): a CONNACK of a resumed session announced a Receive
  Maximum below the number of publishes that had to be replayed (finding F5c). -/
  deficit : Bool := false
  deriving Repr, Inhabited

namespace Runtime

def resetTransport (r : Runtime) : Runtime :=
  { r with sessionResumed := false, nextPing := none, pingTimeout := none }

/-- `keepalive_send_interval` in ms. -/
def keepaliveSendInterval (r : Runtime) : Option Nat :=
  if r.keepaliveMs = 0 then none
  else some (r.keepaliveMs - min ROUND_TRIP_TIMEOUT_MS (r.keepaliveMs / 2))

def noteOutboundActivity (r : Runtime) (now : Nat) : Runtime :=
  { r with nextPing := r.keepaliveSendInterval.map fun i => now + i * 1000 }

def packetTooLarge (r : Runtime) (len : Nat) : Bool :=
  match r.maximumPacketSize with
  | some m => len > m
  | none => false

def nextDeadline (r : Runtime) : Option Nat :=
  match r.nextPing, r.pingTimeout with
  | some _, some pt => some pt
  | some np, none => some np
  | none, some pt => some pt
  | none, none => none

end Runtime

structure SessionData where
  packetId : Nat := 1               -- NonZeroU16
  generation : Nat := 0
  outbound : Outbound
  pendingServerIds : List Nat := []
  sessionPresent : Bool := false
  /-- Ghost (not in the code, never printed): a CONNACK has been accepted at some point. Set by a
  successful `Session.activate`, never cleared. -/
  everAccepted : Bool := false
  /-- Ghost (not in the code, never printed): finding F19 has struck — a CONNACK that announced a
  fresh session reset the local state and was then rejected for its properties, and no CONNACK has
  been accepted since. Set by a failing `Session.activate` with `sp = false`, cleared by a successful one. -/
  halfReset : Bool := false
  /-- Ghost (not in the code, never printed): the Assigned Client Identifier of the last accepted
  CONNACK that carried one. -/
  assignedId : Option Bytes := none
  deriving Repr, Inhabited

namespace SessionData

def reset (d : SessionData) : SessionData :=
  { d with sessionPresent := false, generation := (d.generation + 1) % 4294967296, packetId := 1,
           outbound := d.outbound.clear, pendingServerIds := [] }

def bumpId (id : Nat) : Nat := if id ≥ 65535 then 1 else id + 1

/-- `next_packet_id`: skip identifiers still in the retained or release list. At most
`MAX_RETAINED + MAX_PENDING_RELEASE` are in use, so `fuel = 17` never runs out (proved in
`Proofs/PacketId.lean`). -/
def nextPacketIdFuel : Nat → SessionData → SessionData × Nat
  | 0, d => (d, d.packetId)
  | fuel + 1, d =>
    let id := d.packetId
    let d' := { d with packetId := bumpId id }
    if !d.outbound.hasRetained id && !d.outbound.hasPendingRelease id then (d', id)
    else nextPacketIdFuel fuel d'

def nextPacketId (d : SessionData) : SessionData × Nat :=
  nextPacketIdFuel (MAX_RETAINED + MAX_PENDING_RELEASE + 1) d

end SessionData

def quotaInc (r : Runtime) : Runtime :=
  { r with sendQuota := min (min (r.sendQuota + 1) 65535) r.maxSendQuota }

/-- `check_control_packet_size` / `check_pubrel_size`. -/
def checkSize (r : Runtime) (enc : Except SerErr Bytes) : Except Err Unit :=
  match enc with
  | .error e => .error (Err.ofSer e)
  | .ok bs => if r.packetTooLarge bs.length then .error .packetTooLarge else .ok ()

def firstFailure : Bytes → Option Nat
  | [] => none
  | c :: cs => if reasonSuccess (normReason c.toNat) then firstFailure cs else some (normReason c.toNat)

/-- `SessionData::handle_packet`. Returns the new state and `Ok(deliver)` or the error. State
changes made before an error is raised are kept, as in the code. -/
def handlePacket (d : SessionData) (r : Runtime) (p : Recv) : SessionData × Runtime × Except Err Bool :=
  match p with
  | .connAck _ _ _ => (d, r, .error .peerInvalid)
  | .subAck id _ codes =>
    let (o, found) := d.outbound.ackPacket id .subAck
    if !found then (d, r, .ok false) else
    let d := { d with outbound := o }
    match firstFailure codes with
    | some rc => (d, r, .error (.peerRejected rc))
    | none => (d, r, .ok false)
  | .unsubAck id _ codes =>
    let (o, found) := d.outbound.ackPacket id .unsubAck
    if !found then (d, r, .ok false) else
    let d := { d with outbound := o }
    match firstFailure codes with
    | some rc => (d, r, .error (.peerRejected rc))
    | none => (d, r, .ok false)
  | .pingResp => (d, { r with pingTimeout := none }, .ok false)
  | .pubAck id rs =>
    let (o, found) := d.outbound.ackPacket id .pubAck
    if !found then (d, r, .ok false) else
    let d := { d with outbound := o }
    let r := quotaInc r
    if reasonSuccess rs.rc then (d, r, .ok false) else (d, r, .error (.peerRejected rs.rc))
  | .pubRec id rs =>
    -- ghost: the serial of the retained PUBLISH that this PUBREC acknowledges
    let pser := d.outbound.ackedSer id .pubRec
    let (o, found) := d.outbound.ackPacket id .pubRec
    if found then
      let d := { d with outbound := o }
      let r := if !reasonSuccess rs.rc then quotaInc r else r
      if !reasonSuccess rs.rc then (d, r, .error (.peerRejected rs.rc)) else
      match checkSize r (encodePubrel id RC_Success) with
      | .error e => (d, r, .error e)
      | .ok () =>
        match d.outbound.queueRelease id RC_Success pser with
        | none => (d, r, .error .inflightExhausted)
        | some o' => ({ d with outbound := o' }, r, .ok false)
    else if d.outbound.hasPendingRelease id then
      if !reasonSuccess rs.rc then (d, r, .error (.peerRejected rs.rc)) else (d, r, .ok false)
    else (d, r, .ok false)
  | .pubComp id rs =>
    let (o, found) := d.outbound.ackRelease id
    if !found then (d, r, .ok false) else
    let d := { d with outbound := o }
    let r := quotaInc r
    if reasonSuccess rs.rc then (d, r, .ok false) else (d, r, .error (.peerRejected rs.rc))
  | .pubRel id _ =>
    if id = 0 then (d, r, .error .peerInvalid) else
    let (ids, rc) :=
      if d.pendingServerIds.contains id then
        -- swap_remove: the last element takes the place of the removed one
        (swapRemove d.pendingServerIds id, RC_Success)
      else (d.pendingServerIds, RC_PacketIdNotFound)
    let d := { d with pendingServerIds := ids }
    let a : ControlAction := { typ := MT_PubComp, id := id, rc := rc }
    match checkSize r (encodeControl a) with
    | .error e => (d, r, .error e)
    | .ok () =>
      match d.outbound.queueControl a with
      | none => (d, r, .error .inflightExhausted)
      | some o => ({ d with outbound := o }, r, .ok false)
  | .publish _ id _ _ _ qos _ =>
    if qos = 0 then (d, r, .ok true)
    else
      match id with
      | none => (d, r, .error .peerInvalid)
      | some id =>
        if id = 0 then (d, r, .error .peerInvalid) else
        if qos = 1 then
          let rc := if d.pendingServerIds.contains id then RC_PacketIdInUse else RC_Success
          let a : ControlAction := { typ := MT_PubAck, id := id, rc := rc }
          match checkSize r (encodeControl a) with
          | .error e => (d, r, .error e)
          | .ok () =>
            match d.outbound.queueControl a with
            | none => (d, r, .error .inflightExhausted)
            | some o => ({ d with outbound := o }, r, .ok true)
        else
          let duplicate := d.pendingServerIds.contains id
          let rc := if duplicate || d.pendingServerIds.length < MAX_INBOUND_QOS2 then RC_Success else RC_ReceiveMaxExceeded
          let a : ControlAction := { typ := MT_PubRec, id := id, rc := rc }
          match checkSize r (encodeControl a) with
          | .error e => (d, r, .error e)
          | .ok () =>
            match d.outbound.queueControl a with
            | none => (d, r, .error .inflightExhausted)
            | some o =>
              let d := { d with outbound := o }
              -- recorded only once the PUBREC is owed (repair of F24)
              let d := if !duplicate && reasonSuccess rc then { d with pendingServerIds := d.pendingServerIds ++ [id] } else d
              if duplicate || !reasonSuccess rc then (d, r, .ok false) else (d, r, .ok true)
  | .disconnect _ _ => (d, r, .error .disconnected)
where
  swapRemove (l : List Nat) (id : Nat) : List Nat :=
    match l.idxOf? id with
    | none => l
    | some i =>
      match l.getLast? with
      | none => l
      | some lastv => if i = l.length - 1 then l.dropLast else (l.set i lastv).dropLast

inductive OpKind where
  | pub1 | pub2 | sub | unsub
  deriving DecidableEq, Repr, Inhabited

structure Op where
  kind : OpKind
  id : Nat
  generation : Nat
  deriving DecidableEq, Repr, Inhabited

inductive OpStatus where
  | pending | complete | invalidated
  deriving DecidableEq, Repr, Inhabited

/-- `Session::status`. -/
def SessionData.status (d : SessionData) (op : Op) : OpStatus :=
  if op.generation ≠ d.generation then .invalidated else
  let pending := match op.kind with
    | .pub2 => d.outbound.hasRetained op.id || d.outbound.hasPendingRelease op.id
    | _ => d.outbound.hasRetained op.id
  if pending then .pending else .complete

/-- `Session::can_publish`. -/
def canPublishS (d : SessionData) (r : Runtime) (qos : Nat) : Bool :=
  if qos = 0 then d.outbound.scratchLen ≥ MAX_FIXED_HEADER_SIZE
  else r.sendQuota ≠ 0 && d.outbound.canRetain

end Minimq
