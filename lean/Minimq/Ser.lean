import Minimq.Props
/-
`src/ser/mod.rs`: the serializer writes the body behind a reserved 5-byte header and back-fills
the fixed header. The model keeps the body as a list and tracks the buffer capacity.
-/
namespace Minimq
open Gen

/-- Serializer state: capacity of the buffer it was given and the body written so far
(`index = MAX_FIXED_HEADER_SIZE + body.length`). -/
structure W where
  cap : Nat
  body : Bytes
  deriving Repr

def W.new (cap : Nat) : W := { cap := cap, body := [] }

def W.index (w : W) : Nat := MAX_FIXED_HEADER_SIZE + w.body.length

/-- `push_bytes` / `push`: `buf.len().saturating_sub(index) < data.len()` → InsufficientMemory. -/
def W.push (w : W) (data : Bytes) : Except SerErr W :=
  if w.cap - w.index < data.length then .error .insufficientMemory
  else .ok { w with body := w.body ++ data }

/-- Push a chunk that may itself fail to be produced (`Custom`) before it is pushed. -/
def W.pushE (w : W) (c : Except SerErr Bytes) : Except SerErr W :=
  match c with
  | .error e => .error e
  | .ok bs => w.push bs

def W.pushAll (w : W) : List (Except SerErr Bytes) → Except SerErr W
  | [] => .ok w
  | c :: cs =>
    match w.pushE c with
    | .error e => .error e
    | .ok w' => w'.pushAll cs

/-- `impl Serialize for Properties`: length varint, then the properties. -/
def Properties.chunks (ps : Properties) : List (Except SerErr Bytes) :=
  varintField ps.size ::
  match ps with
  | .slice l => l.flatMap Property.chunks
  | .withCorrelation c l => c.chunks ++ l.flatMap Property.chunks
  | .encoded block => [.ok block]

/-- `finalize`: returns `(offset, packet)`; the packet occupies `buf[offset .. 5 + body.length]`. -/
def W.finalize (w : W) (typ flags : Nat) : Except SerErr (Nat × Bytes) :=
  match writeVarint w.body.length with
  | none => .error .insufficientMemory
  | some rl =>
    if w.cap < MAX_FIXED_HEADER_SIZE then .error .insufficientMemory
    else
      let header := b (typ * 16 + flags % 16)
      .ok (MAX_FIXED_HEADER_SIZE - rl.length - 1, header :: rl ++ w.body)

end Minimq
