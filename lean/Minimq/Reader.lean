import Minimq.De
/-
`src/de/packet_reader.rs`.
-/
namespace Minimq

/-- The receive buffer: `cap` bytes; `data` are the bytes committed for the packet being assembled
(`read_bytes = data.length`); `last` is the most recently handed-off packet, still lying at the
front of the buffer (it is re-decoded by `decode_inbound_publish`). -/
structure Reader where
  cap : Nat
  data : Bytes
  packetLength : Option Nat
  last : Bytes
  deriving Repr, Inhabited

def Reader.new (cap : Nat) : Reader := { cap := cap, data := [], packetLength := none, last := [] }

def Reader.readBytes (r : Reader) : Nat := r.data.length

/-- The loop of `probe_fixed_header` over `buffer[1..read_bytes].iter().take(4)`. -/
def probeLen : (bytes : Bytes) → (index : Nat) → (acc : Nat) → Option Nat
  | [], _, _ => none
  | v :: rest, index, acc =>
    if index ≥ 4 then none else
    let acc' := acc + (v.toNat % 128) * 128 ^ index
    if v.toNat < 128 then some (1 + (1 + index) + acc') else probeLen rest (index + 1) acc'

/-- `probe_fixed_header`: `none` = MalformedPacket. -/
def Reader.probe (r : Reader) : Option Reader :=
  if r.readBytes ≤ 1 then some r else
  let pl := probeLen (r.data.drop 1) 0 0
  if r.readBytes ≥ 5 && pl.isNone then none else some { r with packetLength := pl }

/-- `receive_buffer`: the reader after probing and the size of the window it offers;
`none` = MalformedPacket. -/
def Reader.receiveWindow (r : Reader) : Option (Reader × Nat) :=
  let r1 := if r.packetLength.isNone then r.probe else some r
  match r1 with
  | none => none
  | some r1 =>
    let stop := match r1.packetLength with
      | some l => l
      | none => r1.readBytes + 1
    if stop ≤ r1.cap then some (r1, stop - r1.readBytes) else none

def Reader.commit (r : Reader) (bytes : Bytes) : Reader := { r with data := r.data ++ bytes }

def Reader.packetAvailable (r : Reader) : Bool :=
  match r.packetLength with
  | some l => r.readBytes ≥ l
  | none => false

def Reader.reset (r : Reader) : Reader :=
  { r with data := [], packetLength := none }

/-- `take_packet`: resets the reader, decodes `buffer[..packet_length]`. -/
def Reader.takePacket (r : Reader) : Reader × Option (Nat × Recv) :=
  match r.packetLength with
  | none => (r, none)
  | some l =>
    let pkt := r.data.take l
    let r' : Reader := { r with data := [], packetLength := none, last := pkt }
    match fromBuffer pkt with
    | none => (r', none)
    | some p => (r', some (l, p))

end Minimq
