import Minimq.Bytes
/-
UTF-8 well-formedness (what `core::str::from_utf8` accepts: Unicode Standard table 3-7).
-/
namespace Minimq

def isCont (x : UInt8) : Bool := 0x80 ≤ x.toNat && x.toNat ≤ 0xBF

def inRange (x : UInt8) (lo hi : Nat) : Bool := lo ≤ x.toNat && x.toNat ≤ hi

/-- Number of bytes of the well-formed sequence at the head of `bs`, or 0. -/
def utf8Step : Bytes → Nat
  | [] => 0
  | b0 :: rest =>
    let n := b0.toNat
    if n < 0x80 then 1
    else if 0xC2 ≤ n && n ≤ 0xDF then
      match rest with
      | b1 :: _ => if isCont b1 then 2 else 0
      | _ => 0
    else if n = 0xE0 then
      match rest with
      | b1 :: b2 :: _ => if inRange b1 0xA0 0xBF && isCont b2 then 3 else 0
      | _ => 0
    else if (0xE1 ≤ n && n ≤ 0xEC) || n = 0xEE || n = 0xEF then
      match rest with
      | b1 :: b2 :: _ => if isCont b1 && isCont b2 then 3 else 0
      | _ => 0
    else if n = 0xED then
      match rest with
      | b1 :: b2 :: _ => if inRange b1 0x80 0x9F && isCont b2 then 3 else 0
      | _ => 0
    else if n = 0xF0 then
      match rest with
      | b1 :: b2 :: b3 :: _ => if inRange b1 0x90 0xBF && isCont b2 && isCont b3 then 4 else 0
      | _ => 0
    else if 0xF1 ≤ n && n ≤ 0xF3 then
      match rest with
      | b1 :: b2 :: b3 :: _ => if isCont b1 && isCont b2 && isCont b3 then 4 else 0
      | _ => 0
    else if n = 0xF4 then
      match rest with
      | b1 :: b2 :: b3 :: _ => if inRange b1 0x80 0x8F && isCont b2 && isCont b3 then 4 else 0
      | _ => 0
    else 0

def validUtf8Fuel : Nat → Bytes → Bool
  | _, [] => true
  | 0, _ => false
  | fuel + 1, bs =>
    let k := utf8Step bs
    if k = 0 then false else validUtf8Fuel fuel (bs.drop k)

/-- `core::str::from_utf8(bs).is_ok()`. -/
def validUtf8 (bs : Bytes) : Bool := validUtf8Fuel bs.length bs

end Minimq
