import Minimq.Directive
open Minimq

def main (args : List String) : IO UInt32 := do
  match args with
  | ["run", file] =>
    let text ← IO.FS.readFile file
    let out ← IO.getStdout
    for l in runProgram text do
      out.putStrLn l
    return 0
  | ["batch", dir] =>
    let entries ← System.FilePath.readDir dir
    for e in entries do
      if e.fileName.endsWith ".prog" then
        let text ← IO.FS.readFile e.path
        let outPath := e.path.withExtension "mtrace"
        IO.FS.writeFile outPath (String.intercalate "\n" (runProgram text) ++ "\n")
    return 0
  | _ =>
    IO.eprintln "usage: driver run <file> | batch <dir>"
    return 2
